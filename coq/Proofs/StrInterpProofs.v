(* Proofs/StrInterpProofs.v — lemmas about Model/StrInterp.v against Spec/StrInterpSpec.v *)
From Ecal Require Import Common.Bytes Model.StrInterp Spec.StrInterpSpec.

Lemma find_sub_first_occ p s a b : find_sub p s = Some (a, b) -> first_occ p s a b.
Proof.
  intros H. split; [apply find_sub_some; exact H | apply (find_sub_first _ _ _ _ H)].
Qed.

Lemma first_occ_find_sub p s a b : first_occ p s a b -> find_sub p s = Some (a, b).
Proof.
  revert s; induction a as [|x a IH]; intros s [Hs Hf].
  - simpl in Hs. subst s. destruct (p ++ b) as [|y t] eqn:E.
    + destruct p; [|discriminate]. simpl in E. subst b. reflexivity.
    + unfold find_sub; fold find_sub.
      assert (Hp : prefixb p (y :: t) = true) by (apply prefixb_spec; exists b; auto).
      rewrite Hp. rewrite <- E, skipn_app_length. reflexivity.
  - subst s. simpl. 
    assert (Hp : prefixb p (x :: a ++ p ++ b) = false).
    { apply (Hf [] (x :: a)); [reflexivity | discriminate]. }
    change (match p with [] => true | x0 :: p' => (x0 =? x) && prefixb p' (a ++ p ++ b) end)
      with (prefixb p (x :: a ++ p ++ b)).
    rewrite Hp.
    rewrite (IH (a ++ p ++ b)); [reflexivity|].
    split; [reflexivity|]. intros a1 a2 E Hn. apply (Hf (x :: a1) a2); [rewrite E; reflexivity | exact Hn].
Qed.

Lemma first_occ_unique p s a b a' b' : first_occ p s a b -> first_occ p s a' b' -> a = a' /\ b = b'.
Proof.
  intros H1 H2. apply first_occ_find_sub in H1, H2. rewrite H1 in H2. injection H2; auto.
Qed.

Section Proofs.
  Variable ev : bytes -> bytes.

  Lemma interp_sound fuel lit out log :
    interp ev fuel lit = Some (out, log) -> Interp ev lit out log.
  Proof.
    revert lit out log; induction fuel as [|f IH]; intros lit out log; simpl; [discriminate|].
    destruct (find_sub OPEN lit) as [[pre after]|] eqn:Ho.
    - destruct (find_sub CLOSE after) as [[code rest']|] eqn:Hc.
      + destruct (interp ev f rest') as [[o l]|] eqn:Hi; [|discriminate].
        intros [= <- <-]. eapply I_seg.
        * apply find_sub_first_occ; exact Ho.
        * apply find_sub_first_occ; exact Hc.
        * apply IH; exact Hi.
      + intros [= <- <-]. apply I_plain. intros pre' tail code rest H1 H2.
        apply first_occ_find_sub in H1. unfold S_OPEN in H1. fold OPEN in H1.
        rewrite Ho in H1. injection H1 as <- <-.
        apply first_occ_find_sub in H2. unfold S_CLOSE in H2. fold CLOSE in H2.
        rewrite Hc in H2. discriminate.
    - intros [= <- <-]. apply I_plain. intros pre' tail code rest H1 _.
      apply first_occ_find_sub in H1. unfold S_OPEN in H1. fold OPEN in H1.
      rewrite Ho in H1. discriminate.
  Qed.

  (* the Spec relation is functional: one output and one log per literal *)
  Lemma Interp_functional lit out log out' log' :
    Interp ev lit out log -> Interp ev lit out' log' -> out = out' /\ log = log'.
  Proof.
    intros H; revert out' log'; induction H as [lit Hno | lit pre tail code rest out log H1 H2 H3 IH];
      intros out' log' H'.
    - inversion H' as [lit' Hno' | lit' pre tail code rest o l H1 H2 H3]; subst; [auto|].
      exfalso; eapply Hno; eauto.
    - inversion H' as [lit' Hno' | lit' pre' tail' code' rest' o l H1' H2' H3']; subst.
      + exfalso; eapply Hno'; eauto.
      + destruct (first_occ_unique _ _ _ _ _ _ H1 H1') as [<- <-].
        destruct (first_occ_unique _ _ _ _ _ _ H2 H2') as [<- <-].
        destruct (IH _ _ H3') as [<- <-]. auto.
  Qed.

  (* enough fuel: the literal's length bounds the number of rounds *)
  Lemma interp_total_fuel fuel lit :
    (length lit < fuel)%nat -> exists out log, interp ev fuel lit = Some (out, log).
  Proof.
    revert lit; induction fuel as [|f IH]; intros lit Hl; [lia|]. simpl.
    destruct (find_sub OPEN lit) as [[pre after]|] eqn:Ho; [|eauto].
    destruct (find_sub CLOSE after) as [[code rest']|] eqn:Hc; [|eauto].
    apply find_sub_length in Ho, Hc. simpl in Ho, Hc.
    destruct (IH rest') as [o [l ->]]; [lia|]. eauto.
  Qed.

  Lemma interp_total lit : exists out log, interp ev (interp_fuel lit) lit = Some (out, log).
  Proof. apply interp_total_fuel. unfold interp_fuel. lia. Qed.

  Lemma interp_complete lit out log :
    Interp ev lit out log -> interp ev (interp_fuel lit) lit = Some (out, log).
  Proof.
    intros H. destruct (interp_total lit) as [o [l Hi]].
    pose proof (interp_sound _ _ _ _ Hi) as Hs.
    destruct (Interp_functional _ _ _ _ _ H Hs) as [-> ->]. exact Hi.
  Qed.

  (* every evaluated expression is written in the literal between "{{" and "}}" *)
  Lemma log_from_literal fuel lit out log :
    interp ev fuel lit = Some (out, log) ->
    forall c, In c log -> occurs (OPEN ++ c ++ CLOSE) lit.
  Proof.
    revert lit out log; induction fuel as [|f IH]; intros lit out log; simpl; [discriminate|].
    destruct (find_sub OPEN lit) as [[pre after]|] eqn:Ho.
    - destruct (find_sub CLOSE after) as [[code rest']|] eqn:Hc.
      + destruct (interp ev f rest') as [[o l]|] eqn:Hi; [|discriminate].
        intros [= <- <-] c [<-|Hin].
        * apply find_sub_some in Ho, Hc. subst. exists pre, rest'.
          (unfold OPEN, CLOSE; list_norm; reflexivity).
        * destruct (IH _ _ _ Hi c Hin) as [a [b E]].
          apply find_sub_some in Ho, Hc. subst lit after. rewrite E.
          exists (pre ++ OPEN ++ code ++ CLOSE ++ a), b. (unfold OPEN, CLOSE; list_norm; reflexivity).
      + intros [= <- <-] c [].
    - intros [= <- <-] c [].
  Qed.
End Proofs.

(* data never becomes code: which expressions are evaluated depends on the literal
   only, whatever the evaluator returns *)
Lemma log_independent ev1 ev2 fuel lit :
  option_map snd (interp ev1 fuel lit) = option_map snd (interp ev2 fuel lit).
Proof.
  revert lit; induction fuel as [|f IH]; intros lit; simpl; [reflexivity|].
  destruct (find_sub OPEN lit) as [[pre after]|]; [|reflexivity].
  destruct (find_sub CLOSE after) as [[code rest']|]; [|reflexivity].
  specialize (IH rest').
  destruct (interp ev1 f rest') as [[o1 l1]|], (interp ev2 f rest') as [[o2 l2]|]; simpl in *;
    try discriminate; try reflexivity.
  injection IH as ->. reflexivity.
Qed.

Lemma output_depends_on_codes_only ev1 ev2 fuel lit out1 log1 :
  interp ev1 fuel lit = Some (out1, log1) ->
  (forall c, In c log1 -> ev1 c = ev2 c) ->
  interp ev2 fuel lit = Some (out1, log1).
Proof.
  revert lit out1 log1; induction fuel as [|f IH]; intros lit out1 log1; simpl; [discriminate|].
  destruct (find_sub OPEN lit) as [[pre after]|]; [|auto].
  destruct (find_sub CLOSE after) as [[code rest']|]; [|auto].
  destruct (interp ev1 f rest') as [[o l]|] eqn:Hi; [|discriminate].
  intros [= <- <-] Hag. rewrite (IH _ _ _ Hi); [|intros c Hc; apply Hag; right; exact Hc].
  rewrite (Hag code); [reflexivity | left; reflexivity].
Qed.

(* the output is the literal with each "{{code}}" replaced; with the identity-like
   evaluator that re-wraps the code the literal is reproduced (nothing else changes) *)
Lemma interp_rewrap_identity fuel lit out log :
  interp (fun c => OPEN ++ c ++ CLOSE) fuel lit = Some (out, log) -> out = lit.
Proof.
  revert lit out log; induction fuel as [|f IH]; intros lit out log; simpl; [discriminate|].
  destruct (find_sub OPEN lit) as [[pre after]|] eqn:Ho; [|intros [= <- <-]; reflexivity].
  destruct (find_sub CLOSE after) as [[code rest']|] eqn:Hc; [|intros [= <- <-]; reflexivity].
  destruct (interp _ f rest') as [[o l]|] eqn:Hi; [|discriminate].
  intros [= <- <-]. apply IH in Hi. subst o.
  apply find_sub_some in Ho, Hc. subst. (unfold OPEN, CLOSE; list_norm; reflexivity).
Qed.
