(* Proofs/PrimsSites.v — C06: the tie between the regenerated inventory of partial Go
   operations (gen/PartialOps.v, written by translator/partialops from the current source)
   and the model: every inventoried site must have an entry in [discharge_table] below.

   The key of a site contains the guards that dominate it syntactically, so a site whose
   guard was removed or changed, and every new partial operation, has NO entry and breaks
   [C06_all_sites_discharged] (Props/C06.v).  The entries were produced with
   translator/partialops/mktable.py from /repo with all properties' repairs committed (HEAD 25cd468);
   only ByLemma entries carry a Coq proof, the other classifications are by reading. *)
From Coq Require Import ZArith String List Bool.
From Ecal Require Import Common.Outcome Model.Prims Spec.NoCrashSpec Proofs.PrimsProofs gen.PartialOps.
Import ListNotations.
Open Scope string_scope.

(* How an inventoried partial operation is known not to panic. *)
Inductive discharge : Type :=
| ByLemma (P : Prop) (pf : P)   (* modelled by a primitive of Model/Prims.v; pf = its discharge lemma *)
| Guarded (why : string)        (* the guard that is part of the site key dominates the operation *)
| AstShape (why : string)       (* the operand is the child list of an AST node whose shape the parser /
                                   Validate fixes (C07 well-formedness; fuzzed in C06 stream 2) *)
| Invariant (why : string)      (* the operand was built by the surrounding code itself *)
| OtherProperty (why : string). (* a site owned by another property's model (named) *)

Definition site_key (s : psite) : string :=
  ps_file s ++ "|" ++ ps_func s ++ "|" ++ ps_kind s ++ "|" ++ ps_op s ++ "|" ++ ps_guards s.

(* discharge lemmas: the primitive that models the site never panics, for all operands *)
Definition no_panic_for (mk : (string -> option num) -> Prop) : Prop := forall parse, mk parse.

Lemma L_mod : forall parse a b, good (eval_call parse true (CBin OMod a b)).
Proof. intros; apply eval_call_good. Qed.
Lemma L_eq : forall parse a b, good (eval_call parse true (CBin OEq a b)).
Proof. intros; apply eval_call_good. Qed.
Lemma L_neq : forall parse a b, good (eval_call parse true (CBin ONeq a b)).
Proof. intros; apply eval_call_good. Qed.
Lemma L_in : forall parse op a b, op = OIn \/ op = ONotIn -> good (eval_call parse true (CBin op a b)).
Proof. intros; apply eval_call_good. Qed.
Lemma L_maplit : forall parse es, good (eval_call parse true (CMapLit es)).
Proof. intros; apply eval_call_good. Qed.
Lemma L_get : forall parse c fs, good (eval_call parse true (CGet c fs)).
Proof. intros; apply eval_call_good. Qed.
Lemma L_assign : forall parse c fs, good (eval_call parse true (CAssign c fs)).
Proof. intros; apply eval_call_good. Qed.
Lemma L_setraw : forall parse c fs, good (eval_call parse true (CSetRaw c fs)).
Proof. intros; apply eval_call_good. Qed.
Lemma L_del : forall parse args, good (eval_call parse true (CBuiltin BDel args)).
Proof. intros; apply eval_call_good. Qed.
Lemma L_add : forall parse args, good (eval_call parse true (CBuiltin BAdd args)).
Proof. intros; apply eval_call_good. Qed.
Lemma L_sink : forall parse attrs, good (eval_call parse true (CSink attrs)).
Proof. intros; apply eval_call_good. Qed.

Definition discharge_table : list (string * discharge) := [
  ("engine/pool/threadpool.go|(*DefaultTaskQueue).Pop|index|tq.queue[0]|len(tq.queue) > 0", Guarded "the length test in the key dominates the access (C09 owns the pool)");
  ("engine/pool/threadpool.go|(*DefaultTaskQueue).Pop|slice|tq.queue[1:]|len(tq.queue) > 0", Guarded "the length test in the key dominates the access (C09 owns the pool)");
  ("engine/pool/threadpool.go|(*idleTask).HandleError|panic|panic(...)|", Invariant "idleTask.Run never returns an error");
  ("engine/rule.go|(*RuleIndexKind).addRuleAtLevel|index|kindMatchLevel[0]|", OtherProperty "C01: kindMatchLevel is a non-empty suffix of strings.Split (kind indexes recurse only when len > 1)");
  ("engine/rule.go|(*RuleIndexKind).addRuleAtLevel|slice|kindMatchLevel[1:]|", OtherProperty "C01: kindMatchLevel is a non-empty suffix of strings.Split (kind indexes recurse only when len > 1)");
  ("engine/rule.go|(*RuleIndexKind).isTriggeringAtLevel|index|event.kind[level]|!(len(event.kind) <= level)", Guarded "the length test in the key dominates the access");
  ("engine/rule.go|(*RuleIndexKind).matchAtLevel|index|event.kind[level]|!(len(event.kind) <= level)", Guarded "the length test in the key dominates the access");
  ("engine/rule.go|(*RuleIndexState).addRuleAtLevel|assert-call|errorutil.AssertTrue(len(kindMatchLevel) == 0)|", OtherProperty "C01: a state index is only created for the last kind level");
  ("engine/rule.go|(*RuleMatcherKey).String|mapkey|rm.bitsValue[k]|", Invariant "k ranges over the keys of the same map");
  ("engine/rule.go|(*RuleMatcherKey).addRule|mapkey|rm.bitsValue[value]|!(value == nil) && !(regex, ok := value.(*regexp.Regexp); ok) && isHashable(value)", OtherProperty "C01: F04 repaired, the value is hashed only when it is hashable");
  ("engine/rule.go|(*RuleMatcherKey).match|mapkey|rm.bitsValue[value]|value != nil && isHashable(value)", OtherProperty "C01: F04 repaired, the value is hashed only when it is hashable");
  ("interpreter/func_provider.go|(*addFunc).Run|index|argList[i]|argList, err = rf.AssertListParam(1, args[0]); err == nil && i := int(index); i >= 0 && i <= len(argList)", ByLemma _ L_add);
  ("interpreter/func_provider.go|(*addFunc).Run|index|args[0]|len(args) > 1", Guarded "the len(args) test in the key dominates the access");
  ("interpreter/func_provider.go|(*addFunc).Run|index|args[1]|len(args) > 1 && argList, err = rf.AssertListParam(1, args[0]); err == nil && !(len(args) == 3)", Guarded "the len(args) test in the key dominates the access");
  ("interpreter/func_provider.go|(*addFunc).Run|index|args[1]|len(args) > 1 && argList, err = rf.AssertListParam(1, args[0]); err == nil && len(args) == 3 && index, err = rf.AssertNumParam(3, args[2]); err == nil", Guarded "the len(args) test in the key dominates the access");
  ("interpreter/func_provider.go|(*addFunc).Run|index|args[2]|len(args) > 1 && argList, err = rf.AssertListParam(1, args[0]); err == nil && len(args) == 3", Guarded "the len(args) test in the key dominates the access");
  ("interpreter/func_provider.go|(*addFunc).Run|index|args[2]|len(args) > 1 && argList, err = rf.AssertListParam(1, args[0]); err == nil && len(args) == 3 && index, err = rf.AssertNumParam(3, args[2]); err == nil", Guarded "the len(args) test in the key dominates the access");
  ("interpreter/func_provider.go|(*addFunc).Run|slice|argList[i+1:]|argList, err = rf.AssertListParam(1, args[0]); err == nil && i := int(index); i >= 0 && i <= len(argList)", ByLemma _ L_add);
  ("interpreter/func_provider.go|(*addFunc).Run|slice|argList[i:]|argList, err = rf.AssertListParam(1, args[0]); err == nil && i := int(index); i >= 0 && i <= len(argList)", ByLemma _ L_add);
  ("interpreter/func_provider.go|(*addevent).Run/func|assert|parentMonitor.(engine.Monitor)|", Invariant "is[""erp""], is[""astnode""] are set by identifierRuntime.resolveFunction before every call; is[""monitor""] by the sink action; the iterator state by rangeFunc itself");
  ("interpreter/func_provider.go|(*addevent).addEvent|assert|is[""erp""].(*ECALRuntimeProvider)|", Invariant "is[""erp""], is[""astnode""] are set by identifierRuntime.resolveFunction before every call; is[""monitor""] by the sink action; the iterator state by rangeFunc itself");
  ("interpreter/func_provider.go|(*addevent).addEvent|index|args[0]|len(args) > 2 && stateMap, err = rf.AssertMapParam(3, args[2]); err == nil", Guarded "the len(args) test in the key dominates the access");
  ("interpreter/func_provider.go|(*addevent).addEvent|index|args[1]|len(args) > 2 && stateMap, err = rf.AssertMapParam(3, args[2]); err == nil", Guarded "the len(args) test in the key dominates the access");
  ("interpreter/func_provider.go|(*addevent).addEvent|index|args[2]|len(args) > 2", Guarded "the len(args) test in the key dominates the access");
  ("interpreter/func_provider.go|(*addevent).addEvent|index|args[3]|len(args) > 2 && stateMap, err = rf.AssertMapParam(3, args[2]); err == nil && len(args) > 3", Guarded "the len(args) test in the key dominates the access");
  ("interpreter/func_provider.go|(*addeventandwait).Run/func|assert|m.(*engine.RootMonitor)|m != nil", Invariant "AddEventAndWait returns the *RootMonitor it was given");
  ("interpreter/func_provider.go|(*delFunc).Run|index|args[0]|len(args) == 2", Guarded "the len(args) test in the key dominates the access");
  ("interpreter/func_provider.go|(*delFunc).Run|index|args[1]|len(args) == 2 && argList, ok1 := args[0].([]interface{}); ok1", Guarded "the len(args) test in the key dominates the access");
  ("interpreter/func_provider.go|(*delFunc).Run|index|args[1]|len(args) == 2 && argMap, ok2 := args[0].(map[interface{}]interface{}); ok2", Guarded "the len(args) test in the key dominates the access");
  ("interpreter/func_provider.go|(*delFunc).Run|slice|argList[:i]|argList, ok1 := args[0].([]interface{}); ok1 && i := int(index); i >= 0 && i < len(argList)", ByLemma _ L_del);
  ("interpreter/func_provider.go|(*delFunc).Run|slice|argList[i+1:]|argList, ok1 := args[0].([]interface{}); ok1 && i := int(index); i >= 0 && i < len(argList)", ByLemma _ L_del);
  ("interpreter/func_provider.go|(*docFunc).Run|assert|is[""astnode""].(*parser.ASTNode)|", Invariant "is[""erp""], is[""astnode""] are set by identifierRuntime.resolveFunction before every call; is[""monitor""] by the sink action; the iterator state by rangeFunc itself");
  ("interpreter/func_provider.go|(*docFunc).Run|index|args[0]|len(args) > 0", Guarded "the len(args) test in the key dominates the access");
  ("interpreter/func_provider.go|(*docFunc).Run|index|c.Children[0]|len(c.Children) > 0", AstShape "the call node has a funccall child with at least one argument when len(args) > 0 (fuzzed: doc with every argument vector)");
  ("interpreter/func_provider.go|(*docFunc).Run|index|is[""astnode""].(*parser.ASTNode).Children[0]|", AstShape "the call node has a funccall child with at least one argument when len(args) > 0 (fuzzed: doc with every argument vector)");
  ("interpreter/func_provider.go|(*docFunc).Run|index|is[""astnode""].(*parser.ASTNode).Children[0].Children[0]|", AstShape "the call node has a funccall child with at least one argument when len(args) > 0 (fuzzed: doc with every argument vector)");
  ("interpreter/func_provider.go|(*lenFunc).Run|index|args[0]|len(args) > 0", Guarded "the len(args) test in the key dominates the access");
  ("interpreter/func_provider.go|(*newFunc).Run|index|args[0]|len(args) > 0", Guarded "the len(args) test in the key dominates the access");
  ("interpreter/func_provider.go|(*newFunc).Run|slice|args[1:]|len(args) > 0 && argMap, err = rf.AssertMapParam(1, args[0]); err == nil", Guarded "the len(args) test in the key dominates the access");
  ("interpreter/func_provider.go|(*newFunc).addSuperClasses|mapkey|obj[k]|", Invariant "the key is a string constant or comes from ranging over a map (hashable)");
  ("interpreter/func_provider.go|(*raise).Run|assert|erp.NewRuntimeError(err, detailMsg, node).(*util.RuntimeError)|", Invariant "ECALRuntimeProvider.NewRuntimeError always returns a *util.RuntimeError");
  ("interpreter/func_provider.go|(*raise).Run|assert|is[""astnode""].(*parser.ASTNode)|", Invariant "is[""erp""], is[""astnode""] are set by identifierRuntime.resolveFunction before every call; is[""monitor""] by the sink action; the iterator state by rangeFunc itself");
  ("interpreter/func_provider.go|(*raise).Run|assert|is[""erp""].(*ECALRuntimeProvider)|", Invariant "is[""erp""], is[""astnode""] are set by identifierRuntime.resolveFunction before every call; is[""monitor""] by the sink action; the iterator state by rangeFunc itself");
  ("interpreter/func_provider.go|(*raise).Run|index|args[0]|len(args) > 0", Guarded "the len(args) test in the key dominates the access");
  ("interpreter/func_provider.go|(*raise).Run|index|args[1]|len(args) > 0 && len(args) > 1", Guarded "the len(args) test in the key dominates the access");
  ("interpreter/func_provider.go|(*raise).Run|index|args[1]|len(args) > 0 && len(args) > 1 && args[1] != nil", Guarded "the len(args) test in the key dominates the access");
  ("interpreter/func_provider.go|(*raise).Run|index|args[2]|len(args) > 0 && len(args) > 1 && len(args) > 2", Guarded "the len(args) test in the key dominates the access");
  ("interpreter/func_provider.go|(*rangeFunc).Run|assert|is[instanceID+""currVal""].(float64)|stepVal, ok := is[instanceID+""step""]; ok", Invariant "is[""erp""], is[""astnode""] are set by identifierRuntime.resolveFunction before every call; is[""monitor""] by the sink action; the iterator state by rangeFunc itself");
  ("interpreter/func_provider.go|(*rangeFunc).Run|assert|is[instanceID+""from""].(float64)|stepVal, ok := is[instanceID+""step""]; ok", Invariant "is[""erp""], is[""astnode""] are set by identifierRuntime.resolveFunction before every call; is[""monitor""] by the sink action; the iterator state by rangeFunc itself");
  ("interpreter/func_provider.go|(*rangeFunc).Run|assert|is[instanceID+""to""].(float64)|stepVal, ok := is[instanceID+""step""]; ok", Invariant "is[""erp""], is[""astnode""] are set by identifierRuntime.resolveFunction before every call; is[""monitor""] by the sink action; the iterator state by rangeFunc itself");
  ("interpreter/func_provider.go|(*rangeFunc).Run|assert|stepVal.(float64)|stepVal, ok := is[instanceID+""step""]; ok", Invariant "the iterator state is written by rangeFunc itself as float64");
  ("interpreter/func_provider.go|(*rangeFunc).Run|index|args[0]|", Invariant "lenargs := len(args): lenargs == 0 sets err and skips the block; args[0] needs lenargs >= 1, args[1] is in the else of lenargs == 1, args[2] under lenargs > 2 (b_range)");
  ("interpreter/func_provider.go|(*rangeFunc).Run|index|args[1]|", Invariant "lenargs := len(args): lenargs == 0 sets err and skips the block; args[0] needs lenargs >= 1, args[1] is in the else of lenargs == 1, args[2] under lenargs > 2 (b_range)");
  ("interpreter/func_provider.go|(*rangeFunc).Run|index|args[2]|", Invariant "lenargs := len(args): lenargs == 0 sets err and skips the block; args[0] needs lenargs >= 1, args[1] is in the else of lenargs == 1, args[2] under lenargs > 2 (b_range)");
  ("interpreter/func_provider.go|(*setCronTrigger).Run|assert|is[""erp""].(*ECALRuntimeProvider)|", Invariant "is[""erp""], is[""astnode""] are set by identifierRuntime.resolveFunction before every call; is[""monitor""] by the sink action; the iterator state by rangeFunc itself");
  ("interpreter/func_provider.go|(*setCronTrigger).Run|index|args[0]|len(args) > 2", Guarded "the len(args) test in the key dominates the access");
  ("interpreter/func_provider.go|(*setCronTrigger).Run|index|args[1]|len(args) > 2", Guarded "the len(args) test in the key dominates the access");
  ("interpreter/func_provider.go|(*setCronTrigger).Run|index|args[2]|len(args) > 2", Guarded "the len(args) test in the key dominates the access");
  ("interpreter/func_provider.go|(*setCronTrigger).Run/func|assert-call|errorutil.AssertTrue(err == nil)|cs, err = timeutil.NewCronSpec(cronspec); err == nil", Invariant "time based triggers are outside the model: AddEvent only fails when the processor is stopped, which the status test above the assertion excludes (trusted)");
  ("interpreter/func_provider.go|(*setPulseTrigger).Run|assert|is[""erp""].(*ECALRuntimeProvider)|", Invariant "is[""erp""], is[""astnode""] are set by identifierRuntime.resolveFunction before every call; is[""monitor""] by the sink action; the iterator state by rangeFunc itself");
  ("interpreter/func_provider.go|(*setPulseTrigger).Run|index|args[0]|len(args) > 2", Guarded "the len(args) test in the key dominates the access");
  ("interpreter/func_provider.go|(*setPulseTrigger).Run|index|args[1]|len(args) > 2", Guarded "the len(args) test in the key dominates the access");
  ("interpreter/func_provider.go|(*setPulseTrigger).Run|index|args[2]|len(args) > 2", Guarded "the len(args) test in the key dominates the access");
  ("interpreter/func_provider.go|(*setPulseTrigger).Run/func|assert-call|errorutil.AssertTrue(err == nil)|err == nil", Invariant "time based triggers are outside the model: AddEvent only fails when the processor is stopped, which the status test above the assertion excludes (trusted)");
  ("interpreter/func_provider.go|(*sleepFunc).Run|index|args[0]|len(args) > 0", Guarded "the len(args) test in the key dominates the access");
  ("interpreter/func_provider.go|(*timestampFunc).Run|index|args[0]|len(args) > 0", Guarded "the len(args) test in the key dominates the access");
  ("interpreter/func_provider.go|(*timestampFunc).Run|index|args[1]|len(args) > 0 && len(args) > 1", Guarded "the len(args) test in the key dominates the access");
  ("interpreter/func_provider.go|(*typeFunc).Run|index|args[0]|len(args) > 0", Guarded "the len(args) test in the key dominates the access");
  ("interpreter/rt_arithmetic.go|(*modintOpRuntime).Eval/func|intdiv|int64(n1) % divisor|!(divisor == 0)", ByLemma _ L_mod);
  ("interpreter/rt_boolean.go|(*equalOpRuntime).Eval/func|ifaceeq|n1 == n2|!(opErr = rt.checkComparable(n1, n2); opErr != nil)", ByLemma _ L_eq);
  ("interpreter/rt_boolean.go|(*inOpRuntime).Eval/func|ifaceeq|val == i|!(opErr = rt.checkComparable(val, i); opErr != nil)", ByLemma _ L_in);
  ("interpreter/rt_boolean.go|(*likeOpRuntime).Eval|assert-call|errorutil.AssertTrue(len(rt.node.Children) == 2)|", AstShape "operator nodes have exactly the asserted number of operands (parser)");
  ("interpreter/rt_boolean.go|(*likeOpRuntime).Eval|index|rt.node.Children[0]|", AstShape "number of children fixed by the parser for this node kind (C07 well-formedness, Validate); fuzzed by stream 2");
  ("interpreter/rt_boolean.go|(*likeOpRuntime).Eval|index|rt.node.Children[1]|", AstShape "number of children fixed by the parser for this node kind (C07 well-formedness, Validate); fuzzed by stream 2");
  ("interpreter/rt_boolean.go|(*notequalOpRuntime).Eval/func|ifaceeq|n1 != n2|!(opErr = rt.checkComparable(n1, n2); opErr != nil)", ByLemma _ L_neq);
  ("interpreter/rt_boolean.go|(*notinOpRuntime).Eval|assert|res.(bool)|res, err = rt.inOpRuntime.Eval(vs, is, tid); err == nil", Invariant "inOpRuntime.Eval returns a bool whenever err == nil (L_in)");
  ("interpreter/rt_general.go|(*baseRuntime).Eval|assert-call|errorutil.AssertTrue(rt.validated)|", Invariant "Validate is called before Eval by every entry point (the harness goes through Parse/Validate/Eval)");
  ("interpreter/rt_general.go|(*baseRuntime).Validate|check|err := child.Runtime.Validate(); err != nil|", Invariant "a check performed by Validate / sinkDetailRuntime.Eval (a fact, not a partial operation)");
  ("interpreter/rt_general.go|(*importRuntime).Eval|assert|rt.node.Children[1].Runtime.(*identifierRuntime)|", AstShape "the second child of an import node is an identifier (parser)");
  ("interpreter/rt_general.go|(*importRuntime).Eval|index|rt.node.Children[0]|", AstShape "number of children fixed by the parser for this node kind (C07 well-formedness, Validate); fuzzed by stream 2");
  ("interpreter/rt_general.go|(*importRuntime).Eval|index|rt.node.Children[1]|", AstShape "number of children fixed by the parser for this node kind (C07 well-formedness, Validate); fuzzed by stream 2");
  ("interpreter/rt_general.go|(*invalidRuntime).Validate|check|err == nil|", Invariant "a check performed by Validate / sinkDetailRuntime.Eval (a fact, not a partial operation)");
  ("interpreter/rt_general.go|(*operatorRuntime).boolOp|assert-call|errorutil.AssertTrue(len(rt.node.Children) == 2)|", AstShape "operator nodes have exactly the asserted number of operands (parser)");
  ("interpreter/rt_general.go|(*operatorRuntime).boolOp|index|rt.node.Children[0]|", AstShape "number of children fixed by the parser for this node kind (C07 well-formedness, Validate); fuzzed by stream 2");
  ("interpreter/rt_general.go|(*operatorRuntime).boolOp|index|rt.node.Children[1]|", AstShape "number of children fixed by the parser for this node kind (C07 well-formedness, Validate); fuzzed by stream 2");
  ("interpreter/rt_general.go|(*operatorRuntime).boolVal|assert-call|errorutil.AssertTrue(len(rt.node.Children) == 1)|", AstShape "operator nodes have exactly the asserted number of operands (parser)");
  ("interpreter/rt_general.go|(*operatorRuntime).boolVal|index|rt.node.Children[0]|", AstShape "number of children fixed by the parser for this node kind (C07 well-formedness, Validate); fuzzed by stream 2");
  ("interpreter/rt_general.go|(*operatorRuntime).genOp|assert-call|errorutil.AssertTrue(len(rt.node.Children) == 2)|", AstShape "operator nodes have exactly the asserted number of operands (parser)");
  ("interpreter/rt_general.go|(*operatorRuntime).genOp|index|rt.node.Children[0]|", AstShape "number of children fixed by the parser for this node kind (C07 well-formedness, Validate); fuzzed by stream 2");
  ("interpreter/rt_general.go|(*operatorRuntime).genOp|index|rt.node.Children[1]|", AstShape "number of children fixed by the parser for this node kind (C07 well-formedness, Validate); fuzzed by stream 2");
  ("interpreter/rt_general.go|(*operatorRuntime).listOp|assert-call|errorutil.AssertTrue(len(rt.node.Children) == 2)|", AstShape "operator nodes have exactly the asserted number of operands (parser)");
  ("interpreter/rt_general.go|(*operatorRuntime).listOp|index|rt.node.Children[0]|", AstShape "number of children fixed by the parser for this node kind (C07 well-formedness, Validate); fuzzed by stream 2");
  ("interpreter/rt_general.go|(*operatorRuntime).listOp|index|rt.node.Children[1]|", AstShape "number of children fixed by the parser for this node kind (C07 well-formedness, Validate); fuzzed by stream 2");
  ("interpreter/rt_general.go|(*operatorRuntime).numOp|assert-call|errorutil.AssertTrue(len(rt.node.Children) == 2)|", AstShape "operator nodes have exactly the asserted number of operands (parser)");
  ("interpreter/rt_general.go|(*operatorRuntime).numOp|index|rt.node.Children[0]|", AstShape "number of children fixed by the parser for this node kind (C07 well-formedness, Validate); fuzzed by stream 2");
  ("interpreter/rt_general.go|(*operatorRuntime).numOp|index|rt.node.Children[1]|", AstShape "number of children fixed by the parser for this node kind (C07 well-formedness, Validate); fuzzed by stream 2");
  ("interpreter/rt_general.go|(*operatorRuntime).numVal|assert-call|errorutil.AssertTrue(len(rt.node.Children) == 1)|", AstShape "operator nodes have exactly the asserted number of operands (parser)");
  ("interpreter/rt_general.go|(*operatorRuntime).numVal|index|rt.node.Children[0]|", AstShape "number of children fixed by the parser for this node kind (C07 well-formedness, Validate); fuzzed by stream 2");
  ("interpreter/rt_general.go|(*operatorRuntime).strOp|assert-call|errorutil.AssertTrue(len(rt.node.Children) == 2)|", AstShape "operator nodes have exactly the asserted number of operands (parser)");
  ("interpreter/rt_general.go|(*operatorRuntime).strOp|index|rt.node.Children[0]|", AstShape "number of children fixed by the parser for this node kind (C07 well-formedness, Validate); fuzzed by stream 2");
  ("interpreter/rt_general.go|(*operatorRuntime).strOp|index|rt.node.Children[1]|", AstShape "number of children fixed by the parser for this node kind (C07 well-formedness, Validate); fuzzed by stream 2");
  ("interpreter/rt_identifier.go|(*identifierRuntime).executeFunction|assert|rt.erp.NewRuntimeError(util.ErrRuntimeError, errMsg, node).(*util.RuntimeError)|", Invariant "ECALRuntimeProvider.NewRuntimeError always returns a *util.RuntimeError");
  ("interpreter/rt_identifier.go|(*identifierRuntime).executeFunction|index|args[i]|range args", Guarded "i ranges over args");
  ("interpreter/rt_identifier.go|(*identifierRuntime).resolveValue/func|slice|rnode.Children[i+1:]|range rnode.Children", Guarded "the length test / loop bound in the key dominates the access");
  ("interpreter/rt_identifier.go|buildAccessString|index|c.Children[0]|", AstShape "number of children fixed by the parser for this node kind (C07 well-formedness, Validate); fuzzed by stream 2");
  ("interpreter/rt_identifier.go|buildAccessString|index|c.Children[0]|len(c.Children) > 0", Guarded "the length test / loop bound in the key dominates the access");
  ("interpreter/rt_identifier.go|buildAccessString|index|node.Children[i+1]|range node.Children && len(node.Children) > i+1", Guarded "the length test / loop bound in the key dominates the access");
  ("interpreter/rt_sink.go|(*sinkDetailRuntime).Eval|check|_, ok := ret.([]interface{}); !ok|", Invariant "a check performed by Validate / sinkDetailRuntime.Eval (a fact, not a partial operation)");
  ("interpreter/rt_sink.go|(*sinkDetailRuntime).Eval|check|_, ok := ret.(float64); !ok|", Invariant "a check performed by Validate / sinkDetailRuntime.Eval (a fact, not a partial operation)");
  ("interpreter/rt_sink.go|(*sinkDetailRuntime).Eval|check|_, ok := ret.(map[interface{}]interface{}); !ok|", Invariant "a check performed by Validate / sinkDetailRuntime.Eval (a fact, not a partial operation)");
  ("interpreter/rt_sink.go|(*sinkDetailRuntime).Eval|check|err == nil|", Invariant "a check performed by Validate / sinkDetailRuntime.Eval (a fact, not a partial operation)");
  ("interpreter/rt_sink.go|(*sinkDetailRuntime).Eval|check|ret, err = rt.node.Children[0].Runtime.Eval(vs, is, tid); err == nil|", Invariant "a check performed by Validate / sinkDetailRuntime.Eval (a fact, not a partial operation)");
  ("interpreter/rt_sink.go|(*sinkDetailRuntime).Eval|check|rt.valType == ""int""|", Invariant "a check performed by Validate / sinkDetailRuntime.Eval (a fact, not a partial operation)");
  ("interpreter/rt_sink.go|(*sinkDetailRuntime).Eval|check|rt.valType == ""list""|", Invariant "a check performed by Validate / sinkDetailRuntime.Eval (a fact, not a partial operation)");
  ("interpreter/rt_sink.go|(*sinkDetailRuntime).Eval|check|rt.valType == ""map""|", Invariant "a check performed by Validate / sinkDetailRuntime.Eval (a fact, not a partial operation)");
  ("interpreter/rt_sink.go|(*sinkDetailRuntime).Eval|index|rt.node.Children[0]|", AstShape "number of children fixed by the parser for this node kind (C07 well-formedness, Validate); fuzzed by stream 2");
  ("interpreter/rt_sink.go|(*sinkRuntime).Eval|index|rt.node.Meta[0]|len(rt.node.Meta) > 0", Guarded "the length test / loop bound in the key dominates the access");
  ("interpreter/rt_sink.go|(*sinkRuntime).Eval|index|rt.node.Meta[0]|len(rt.node.Meta) > 0 && !(rt.node.Meta[0].Type() == parser.MetaDataPreComment)", Guarded "the length test / loop bound in the key dominates the access");
  ("interpreter/rt_sink.go|(*sinkRuntime).Eval|index|rt.node.Meta[0]|len(rt.node.Meta) > 0 && (rt.node.Meta[0].Type() == parser.MetaDataPreComment || rt.node.Meta[0].Type() == parser.MetaDataPostComment)", Guarded "the length test / loop bound in the key dominates the access");
  ("interpreter/rt_sink.go|(*sinkRuntime).Eval/func|assert|rt.erp.NewRuntimeError(util.ErrSink, err.Error(), rt.node).(*util.RuntimeError)|", Invariant "ECALRuntimeProvider.NewRuntimeError always returns a *util.RuntimeError");
  ("interpreter/rt_sink.go|(*sinkRuntime).Validate|check|err != nil|", Invariant "a check performed by Validate / sinkDetailRuntime.Eval (a fact, not a partial operation)");
  ("interpreter/rt_sink.go|(*sinkRuntime).Validate|check|err == nil|", Invariant "a check performed by Validate / sinkDetailRuntime.Eval (a fact, not a partial operation)");
  ("interpreter/rt_sink.go|(*sinkRuntime).Validate|slice|rt.node.Children[1:]|", AstShape "number of children fixed by the parser for this node kind (C07 well-formedness, Validate); fuzzed by stream 2");
  ("interpreter/rt_sink.go|(*sinkRuntime).createRule|assert|val.(float64)|val, err = child.Runtime.Eval(vs, is, tid); err == nil", ByLemma _ L_sink);
  ("interpreter/rt_sink.go|(*sinkRuntime).createRule|assert|val.(map[interface{}]interface{})|val, err = child.Runtime.Eval(vs, is, tid); err == nil", ByLemma _ L_sink);
  ("interpreter/rt_sink.go|(*sinkRuntime).createRule|index|rt.node.Children[0]|", AstShape "number of children fixed by the parser for this node kind (C07 well-formedness, Validate); fuzzed by stream 2");
  ("interpreter/rt_sink.go|(*sinkRuntime).createRule|slice|rt.node.Children[1:]|", AstShape "number of children fixed by the parser for this node kind (C07 well-formedness, Validate); fuzzed by stream 2");
  ("interpreter/rt_sink.go|(*sinkRuntime).makeStringList|assert|val.([]interface{})|", ByLemma _ L_sink);
  ("interpreter/rt_statements.go|(*guardRuntime).Eval|index|rt.node.Children[0]|", AstShape "number of children fixed by the parser for this node kind (C07 well-formedness, Validate); fuzzed by stream 2");
  ("interpreter/rt_statements.go|(*ifRuntime).Eval|assert|guardres.(bool)|", Invariant "guardRuntime.Eval returns a bool whenever err == nil");
  ("interpreter/rt_statements.go|(*ifRuntime).Eval|index|rt.node.Children[offset+1]|for offset < len(rt.node.Children)", Guarded "the length test / loop bound in the key dominates the access");
  ("interpreter/rt_statements.go|(*ifRuntime).Eval|index|rt.node.Children[offset]|for offset < len(rt.node.Children)", Guarded "the length test / loop bound in the key dominates the access");
  ("interpreter/rt_statements.go|(*loopRuntime).Eval|assert|guardres.(bool)|", Invariant "guardRuntime.Eval returns a bool whenever err == nil");
  ("interpreter/rt_statements.go|(*loopRuntime).Eval|index|rt.node.Children[0]|", AstShape "number of children fixed by the parser for this node kind (C07 well-formedness, Validate); fuzzed by stream 2");
  ("interpreter/rt_statements.go|(*loopRuntime).Eval|index|rt.node.Children[0]|!(rt.node.Children[0].Name == parser.NodeGUARD)", AstShape "number of children fixed by the parser for this node kind (C07 well-formedness, Validate); fuzzed by stream 2");
  ("interpreter/rt_statements.go|(*loopRuntime).Eval|index|rt.node.Children[0]|rt.node.Children[0].Name == parser.NodeGUARD", AstShape "number of children fixed by the parser for this node kind (C07 well-formedness, Validate); fuzzed by stream 2");
  ("interpreter/rt_statements.go|(*loopRuntime).Eval|index|rt.node.Children[1]|rt.node.Children[0].Name == parser.NodeGUARD", AstShape "number of children fixed by the parser for this node kind (C07 well-formedness, Validate); fuzzed by stream 2");
  ("interpreter/rt_statements.go|(*loopRuntime).Validate|check|child.Name != parser.NodeIDENTIFIER || len(child.Children) != 0|", Invariant "a check performed by Validate / sinkDetailRuntime.Eval (a fact, not a partial operation)");
  ("interpreter/rt_statements.go|(*loopRuntime).Validate|check|err == nil|", Invariant "a check performed by Validate / sinkDetailRuntime.Eval (a fact, not a partial operation)");
  ("interpreter/rt_statements.go|(*loopRuntime).Validate|check|inVar.Name == parser.NodeIDENTIFIER|", Invariant "a check performed by Validate / sinkDetailRuntime.Eval (a fact, not a partial operation)");
  ("interpreter/rt_statements.go|(*loopRuntime).Validate|check|inVar.Name == parser.NodeLIST|", Invariant "a check performed by Validate / sinkDetailRuntime.Eval (a fact, not a partial operation)");
  ("interpreter/rt_statements.go|(*loopRuntime).Validate|check|len(inVar.Children) != 0|", Invariant "a check performed by Validate / sinkDetailRuntime.Eval (a fact, not a partial operation)");
  ("interpreter/rt_statements.go|(*loopRuntime).Validate|check|rt.node.Children[0].Name == parser.NodeIN|", Invariant "a check performed by Validate / sinkDetailRuntime.Eval (a fact, not a partial operation)");
  ("interpreter/rt_statements.go|(*loopRuntime).Validate|index|rt.node.Children[0]|", AstShape "number of children fixed by the parser for this node kind (C07 well-formedness, Validate); fuzzed by stream 2");
  ("interpreter/rt_statements.go|(*loopRuntime).Validate|index|rt.node.Children[0]|rt.node.Children[0].Name == parser.NodeIN", AstShape "number of children fixed by the parser for this node kind (C07 well-formedness, Validate); fuzzed by stream 2");
  ("interpreter/rt_statements.go|(*loopRuntime).Validate|index|rt.node.Children[0].Children[0]|", AstShape "number of children fixed by the parser for this node kind (C07 well-formedness, Validate); fuzzed by stream 2");
  ("interpreter/rt_statements.go|(*loopRuntime).getIterator|index|rt.node.Children[0]|", AstShape "number of children fixed by the parser for this node kind (C07 well-formedness, Validate); fuzzed by stream 2");
  ("interpreter/rt_statements.go|(*loopRuntime).getIterator|index|rt.node.Children[0].Children[1]|", AstShape "number of children fixed by the parser for this node kind (C07 well-formedness, Validate); fuzzed by stream 2");
  ("interpreter/rt_statements.go|(*loopRuntime).getIterator/func|index|keys[index]|!(index >= end)", Guarded "the bound test in the key dominates the access");
  ("interpreter/rt_statements.go|(*loopRuntime).getIterator/func|index|valList[index]|valList, isList := val.([]interface{}); isList && !(index >= end)", Guarded "the bound test in the key dominates the access");
  ("interpreter/rt_statements.go|(*loopRuntime).getIterator/func|mapkey|valMap[key]|", Invariant "the key comes from ranging over the same map / is a string (hashable)");
  ("interpreter/rt_statements.go|(*loopRuntime).handleIterator|index|resList[i]|resList, ok := res.([]interface{}); ok", Invariant "len(vars) == len(resList) is checked just before the loop over vars");
  ("interpreter/rt_statements.go|(*loopRuntime).handleIterator|index|rt.node.Children[1]|", AstShape "number of children fixed by the parser for this node kind (C07 well-formedness, Validate); fuzzed by stream 2");
  ("interpreter/rt_statements.go|(*loopRuntime).handleIterator|index|vars[0]|len(vars) == 1", Guarded "the bound test in the key dominates the access");
  ("interpreter/rt_statements.go|(*mutexRuntime).Eval|index|rt.node.Children[0]|", AstShape "number of children fixed by the parser for this node kind (C07 well-formedness, Validate); fuzzed by stream 2");
  ("interpreter/rt_statements.go|(*mutexRuntime).Eval|index|rt.node.Children[1]|", AstShape "number of children fixed by the parser for this node kind (C07 well-formedness, Validate); fuzzed by stream 2");
  ("interpreter/rt_statements.go|(*tryRuntime).Eval|index|child.Children[0]|", AstShape "number of children fixed by the parser for this node kind (C07 well-formedness, Validate); fuzzed by stream 2");
  ("interpreter/rt_statements.go|(*tryRuntime).Eval|index|rt.node.Children[0]|", AstShape "number of children fixed by the parser for this node kind (C07 well-formedness, Validate); fuzzed by stream 2");
  ("interpreter/rt_statements.go|(*tryRuntime).Eval|index|rt.node.Children[i]|for i < len(rt.node.Children)", Guarded "the length test / loop bound in the key dominates the access");
  ("interpreter/rt_statements.go|(*tryRuntime).Eval|index|rt.node.Children[len(rt.node.Children)-1]|", AstShape "number of children fixed by the parser for this node kind (C07 well-formedness, Validate); fuzzed by stream 2");
  ("interpreter/rt_statements.go|(*tryRuntime).Eval/func|index|finally.Children[0]|", AstShape "number of children fixed by the parser for this node kind (C07 well-formedness, Validate); fuzzed by stream 2");
  ("interpreter/rt_statements.go|(*tryRuntime).evalExcept|assert-call|errorutil.AssertOk(evalErr)|", Invariant "a string constant evaluates without error (C14: interpolation errors are inlined)");
  ("interpreter/rt_statements.go|(*tryRuntime).evalExcept|index|child.Children[0]|", AstShape "number of children fixed by the parser for this node kind (C07 well-formedness, Validate); fuzzed by stream 2");
  ("interpreter/rt_value.go|(*mapValueRuntime).Eval|index|kvp.Children[0]|", AstShape "number of children fixed by the parser for this node kind (C07 well-formedness, Validate); fuzzed by stream 2");
  ("interpreter/rt_value.go|(*mapValueRuntime).Eval|index|kvp.Children[1]|", AstShape "number of children fixed by the parser for this node kind (C07 well-formedness, Validate); fuzzed by stream 2");
  ("interpreter/rt_value.go|(*mapValueRuntime).Eval|mapkey|m[key]|key, err = kvp.Children[0].Runtime.Eval(vs, is, tid); err == nil && !(t := reflect.TypeOf(key); t != nil && !t.Comparable())", ByLemma _ L_maplit);
  ("interpreter/rt_value.go|(*mapValueRuntime).Validate|check|err == nil|", Invariant "a check performed by Validate / sinkDetailRuntime.Eval (a fact, not a partial operation)");
  ("interpreter/rt_value.go|(*mapValueRuntime).Validate|check|kvp.Name != parser.NodeKVP || len(kvp.Children) != 2|", Invariant "a check performed by Validate / sinkDetailRuntime.Eval (a fact, not a partial operation)");
  ("interpreter/rt_value.go|(*numberValueRuntime).Validate|check|err == nil|", Invariant "a check performed by Validate / sinkDetailRuntime.Eval (a fact, not a partial operation)");
  ("interpreter/rt_value.go|(*stringValueRuntime).Eval|slice|rest[:s]|!(s < 0)", OtherProperty "C14: interp_total (indices come from strings.Index on the same string)");
  ("interpreter/rt_value.go|(*stringValueRuntime).Eval|slice|rest[s+2 : s+2+e]|!(s < 0) && !(e < 0)", OtherProperty "C14: interp_total (indices come from strings.Index on the same string)");
  ("interpreter/rt_value.go|(*stringValueRuntime).Eval|slice|rest[s+2+e+2:]|!(s < 0) && !(e < 0)", OtherProperty "C14: interp_total (indices come from strings.Index on the same string)");
  ("interpreter/rt_value.go|(*stringValueRuntime).Eval|slice|rest[s+2:]|!(s < 0)", OtherProperty "C14: interp_total (indices come from strings.Index on the same string)");
  ("scope/varsscope.go|(*varsScope).NewChild|assert|NewScope(name).(*varsScope)|", Invariant "all scopes are created by NewScope / NewChild as *varsScope");
  ("scope/varsscope.go|(*varsScope).SetLocalValue|index|strings.Split(varName, ""."")[0]|", Invariant "strings.Split returns at least one element; fields is a non-empty suffix of cFields (recursion only with len(fields) > 1 resp. > 2)");
  ("scope/varsscope.go|(*varsScope).containerAccess|index|fields[0]|", Invariant "strings.Split returns at least one element; fields is a non-empty suffix of cFields (recursion only with len(fields) > 1 resp. > 2)");
  ("scope/varsscope.go|(*varsScope).containerAccess|index|fields[0]|!(index, err = strconv.Atoi(fmt.Sprint(fields[0])); err == nil)", Invariant "strings.Split returns at least one element; fields is a non-empty suffix of cFields (recursion only with len(fields) > 1 resp. > 2)");
  ("scope/varsscope.go|(*varsScope).containerAccess|index|listContainer[index]|listContainer, ok := container.([]interface{}); ok && index, err = strconv.Atoi(fmt.Sprint(fields[0])); err == nil && index >= 0 && index < len(listContainer)", ByLemma _ L_assign);
  ("scope/varsscope.go|(*varsScope).containerAccess|mapkey|mapContainer[mapFieldKey(mapContainer, fields[0])]|mapContainer, ok := container.(map[interface{}]interface{}); ok", Invariant "mapFieldKey returns float64(index) or the string field itself: both hashable");
  ("scope/varsscope.go|(*varsScope).containerAccess|slice|cFields[:len(cFields)-len(fields)+1]|container, ok = mapContainer[mapFieldKey(mapContainer, fields[0])]; !ok", Invariant "strings.Split returns at least one element; fields is a non-empty suffix of cFields (recursion only with len(fields) > 1 resp. > 2)");
  ("scope/varsscope.go|(*varsScope).containerAccess|slice|cFields[:len(cFields)-len(fields)]|", Invariant "strings.Split returns at least one element; fields is a non-empty suffix of cFields (recursion only with len(fields) > 1 resp. > 2)");
  ("scope/varsscope.go|(*varsScope).containerAccess|slice|cFields[:len(cFields)-len(fields)]|!(index, err = strconv.Atoi(fmt.Sprint(fields[0])); err == nil)", Invariant "strings.Split returns at least one element; fields is a non-empty suffix of cFields (recursion only with len(fields) > 1 resp. > 2)");
  ("scope/varsscope.go|(*varsScope).containerAccess|slice|cFields[:len(cFields)-len(fields)]|index, err = strconv.Atoi(fmt.Sprint(fields[0])); err == nil", Invariant "strings.Split returns at least one element; fields is a non-empty suffix of cFields (recursion only with len(fields) > 1 resp. > 2)");
  ("scope/varsscope.go|(*varsScope).containerAccess|slice|fields[1:]|err == nil && len(fields) > 2", Invariant "strings.Split returns at least one element; fields is a non-empty suffix of cFields (recursion only with len(fields) > 1 resp. > 2)");
  ("scope/varsscope.go|(*varsScope).getScopeForVariable|assert|s.parent.(*varsScope)|s.parent != nil", Invariant "all scopes are created by NewScope / NewChild as *varsScope");
  ("scope/varsscope.go|(*varsScope).getValue|index|cFields[0]|cFields := strings.Split(varName, "".""); len(cFields) > 1", Invariant "strings.Split returns at least one element; fields is a non-empty suffix of cFields (recursion only with len(fields) > 1 resp. > 2)");
  ("scope/varsscope.go|(*varsScope).getValue|slice|cFields[1:]|cFields := strings.Split(varName, "".""); len(cFields) > 1", Invariant "strings.Split returns at least one element; fields is a non-empty suffix of cFields (recursion only with len(fields) > 1 resp. > 2)");
  ("scope/varsscope.go|(*varsScope).getValue/func|index|fields[0]|", Invariant "strings.Split returns at least one element; fields is a non-empty suffix of cFields (recursion only with len(fields) > 1 resp. > 2)");
  ("scope/varsscope.go|(*varsScope).getValue/func|index|fields[0]|!(index, err = strconv.Atoi(fmt.Sprint(fields[0])); err == nil)", Invariant "strings.Split returns at least one element; fields is a non-empty suffix of cFields (recursion only with len(fields) > 1 resp. > 2)");
  ("scope/varsscope.go|(*varsScope).getValue/func|index|listContainer[index]|listContainer, ok := container.([]interface{}); ok && index, err = strconv.Atoi(fmt.Sprint(fields[0])); err == nil && index >= 0 && index < len(listContainer)", ByLemma _ L_get);
  ("scope/varsscope.go|(*varsScope).getValue/func|mapkey|mapContainer[mapFieldKey(mapContainer, fields[0])]|mapContainer, ok := container.(map[interface{}]interface{}); ok", Invariant "mapFieldKey returns float64(index) or the string field itself: both hashable");
  ("scope/varsscope.go|(*varsScope).getValue/func|slice|cFields[:len(cFields)-len(fields)]|cFields := strings.Split(varName, "".""); len(cFields) > 1", Invariant "strings.Split returns at least one element; fields is a non-empty suffix of cFields (recursion only with len(fields) > 1 resp. > 2)");
  ("scope/varsscope.go|(*varsScope).getValue/func|slice|cFields[:len(cFields)-len(fields)]|cFields := strings.Split(varName, "".""); len(cFields) > 1 && !(index, err = strconv.Atoi(fmt.Sprint(fields[0])); err == nil)", Invariant "strings.Split returns at least one element; fields is a non-empty suffix of cFields (recursion only with len(fields) > 1 resp. > 2)");
  ("scope/varsscope.go|(*varsScope).getValue/func|slice|cFields[:len(cFields)-len(fields)]|cFields := strings.Split(varName, "".""); len(cFields) > 1 && index, err = strconv.Atoi(fmt.Sprint(fields[0])); err == nil", Invariant "strings.Split returns at least one element; fields is a non-empty suffix of cFields (recursion only with len(fields) > 1 resp. > 2)");
  ("scope/varsscope.go|(*varsScope).getValue/func|slice|fields[1:]|err == nil && len(fields) > 1", Invariant "strings.Split returns at least one element; fields is a non-empty suffix of cFields (recursion only with len(fields) > 1 resp. > 2)");
  ("scope/varsscope.go|(*varsScope).scopeStringParents|assert|s.parent.(*varsScope)|s.parent != nil", Invariant "all scopes are created by NewScope / NewChild as *varsScope");
  ("scope/varsscope.go|(*varsScope).setValue|index|cFields[0]|cFields := strings.Split(varName, "".""); len(cFields) > 1", Invariant "strings.Split returns at least one element; fields is a non-empty suffix of cFields (recursion only with len(fields) > 1 resp. > 2)");
  ("scope/varsscope.go|(*varsScope).setValue|index|cFields[0]|cFields := strings.Split(varName, "".""); len(cFields) > 1 && !(container, ok, _ := s.getValue(cFields[0]); ok)", Invariant "strings.Split returns at least one element; fields is a non-empty suffix of cFields (recursion only with len(fields) > 1 resp. > 2)");
  ("scope/varsscope.go|(*varsScope).setValue|index|cFields[len(cFields)-1]|cFields := strings.Split(varName, "".""); len(cFields) > 1 && container, ok, _ := s.getValue(cFields[0]); ok", Invariant "strings.Split returns at least one element; fields is a non-empty suffix of cFields (recursion only with len(fields) > 1 resp. > 2)");
  ("scope/varsscope.go|(*varsScope).setValue|index|listContainer[index]|listContainer, ok := container.([]interface{}); ok && index, err = strconv.Atoi(fieldIndex); err == nil && index >= 0 && index < len(listContainer)", ByLemma _ L_setraw);
  ("scope/varsscope.go|(*varsScope).setValue|mapkey|mapContainer[mapFieldKey(mapContainer, fieldIndex)]|mapContainer, ok := container.(map[interface{}]interface{}); ok", Invariant "mapFieldKey returns float64(index) or the string field itself: both hashable");
  ("scope/varsscope.go|(*varsScope).setValue|slice|cFields[1:]|cFields := strings.Split(varName, "".""); len(cFields) > 1 && container, ok, _ := s.getValue(cFields[0]); ok && len(cFields) > 2", Invariant "strings.Split returns at least one element; fields is a non-empty suffix of cFields (recursion only with len(fields) > 1 resp. > 2)");
  ("scope/varsscope.go|(*varsScope).setValue|slice|cFields[:len(cFields)-1]|cFields := strings.Split(varName, "".""); len(cFields) > 1 && container, ok, _ := s.getValue(cFields[0]); ok", Invariant "strings.Split returns at least one element; fields is a non-empty suffix of cFields (recursion only with len(fields) > 1 resp. > 2)");
  (* docFunc.Run after fixes/C06-doc-index-argument.patch *)
  ("interpreter/func_provider.go|(*docFunc).Run|index|c.Children[0]|len(c.Children) > 0 && c.Children[0].Name == parser.NodeIDENTIFIER", Guarded "the length test in the key dominates the access");
  ("interpreter/func_provider.go|(*docFunc).Run|index|c.Children[0]|len(c.Children) > 0 && c.Children[0].Name == parser.NodeIDENTIFIER && c.Children[0].Token != nil", Guarded "the length test in the key dominates the access")
].

Definition site_covered (s : psite) : bool :=
  existsb (fun e => String.eqb (site_key s) (fst e)) discharge_table.

(* the sites without an entry (printed by the driver's build log when the obligation fails) *)
Definition uncovered : list string :=
  map site_key (filter (fun s => negb (site_covered s)) partial_ops).

(* facts in other functions that AstShape / ByLemma entries rely on: they must be present
   in the inventory (kind "check") *)
Definition required_checks : list string := [
  "interpreter/rt_value.go|(*mapValueRuntime).Validate|check|kvp.Name != parser.NodeKVP || len(kvp.Children) != 2|";
  "interpreter/rt_sink.go|(*sinkDetailRuntime).Eval|check|_, ok := ret.([]interface{}); !ok|";
  "interpreter/rt_sink.go|(*sinkDetailRuntime).Eval|check|_, ok := ret.(map[interface{}]interface{}); !ok|";
  "interpreter/rt_sink.go|(*sinkDetailRuntime).Eval|check|_, ok := ret.(float64); !ok|"
].

Definition checks_present : bool :=
  forallb (fun k => existsb (fun s => String.eqb (site_key s) k) partial_ops) required_checks.
