(* Proofs/CascadeInv.v — every step of the cascade model preserves the invariant [Inv]. *)
From Coq Require Import Lia ZifyBool.
From Ecal Require Import Model.Cascade Spec.CascadeSpec Proofs.CascadeProofs.

Ltac cases HS :=
  destruct HS;
  repeat match goal with H : Dec _ _ _ _ |- _ => destruct H end;
  unfold next_cb in *.

Ltac inj :=
  repeat match goal with
         | H : Some _ = Some _ |- _ => injection H as H; subst
         | H : Some _ = None |- _ => discriminate H
         | H : None = Some _ |- _ => discriminate H
         end.

Ltac lk :=
  try (match goal with H : mons _ _ = Some _ |- _ => move H at bottom end);
  unfold M0, R0 in *; simpl in *; unfold upd in *;
  repeat (first [ progress inj
                | match goal with
                  | H : context[Nat.eqb ?a ?b] |- _ => destruct (Nat.eqb_spec a b)
                  | |- context[Nat.eqb ?a ?b] => destruct (Nat.eqb_spec a b)
                  end ]; subst; simpl in * ).

Lemma not_in_ids s c : Inv s -> mons s c = None -> ~ In c (ids s).
Proof. intros I H Hin. apply (i_ids s I) in Hin. contradiction. Qed.

Lemma in_ids s m M : Inv s -> mons s m = Some M -> In m (ids s).
Proof. intros I H. apply (i_ids s I). rewrite H; discriminate. Qed.

Lemma nodup_snoc {A} (l : list A) c : NoDup l -> ~ In c l -> NoDup (l ++ [c]).
Proof.
  induction l as [|a l IH]; simpl; intros ND Hn; [constructor; [intros []|constructor]|].
  inversion ND; subst. constructor.
  - rewrite in_app_iff. simpl. intros [H|[H|[]]]; [contradiction|subst; apply Hn; left; reflexivity].
  - apply IH; auto.
Qed.

Lemma pres_nodup s l s' : Inv s -> Step s l s' -> NoDup (ids s').
Proof.
  intros I HS. pose proof (i_nodup s I) as ND.
  assert (A : forall c, mons s c = None -> NoDup (ids s ++ [c])).
  { intros c Hc. apply nodup_snoc; auto. apply not_in_ids; auto. }
  cases HS; try (destruct (obs s (m_root M))); try destruct rest; try destruct (r_wait R); simpl; auto.
Qed.

Ltac splitcb := try (match goal with |- context[match obs ?s ?r with _ => _ end] => destruct (obs s r) eqn:? end); try (match goal with rest : list cb |- _ => destruct rest end);
                try (match goal with |- context[if r_wait ?R then set_obs _ _ _ else _] => destruct (r_wait R) eqn:? end).

Lemma pres_ids s l s' : Inv s -> Step s l s' -> forall x, In x (ids s') <-> mons s' x <> None.
Proof.
  intros I HS x. pose proof (i_ids s I x) as Hx.
  cases HS; splitcb; lk; rewrite ?in_app_iff; simpl;
    repeat match goal with H : mons s _ = _ |- _ => rewrite H in Hx end;
    intuition (try congruence).
Qed.

Lemma pres_panic s l s' : Inv s -> Step s l s' -> (forall r q x, queues s r = Some (x :: q) -> forall m M cbs h, mons s m = Some M -> m_root M = r -> m_phase M = PPosting cbs h -> False) ->
  (forall m M R rest, mons s m = Some M -> m_phase M = PPosting (CbWaiter :: rest) false -> roots s (m_root M) = Some R -> (0 < r_wg R)%Z) ->
  s_panic s' = None.
Proof.
  intros I HS Hq Hw. pose proof (i_panic s I) as P.
  cases HS; splitcb; simpl; auto; exfalso.
  all: try match goal with A : (r_wg _ <= 0)%Z, B : mons _ _ = Some _, C : m_phase _ = _, D : roots _ _ = Some _ |- _ =>
         specialize (Hw _ _ _ _ B C D); lia end.
  all: match goal with A : queues _ _ = Some (_ :: _), B : mons _ ?m = Some ?M |- _ => eapply (Hq _ _ _ A m M); eauto end.
Qed.

Lemma pres_root s l s' : Inv s -> Step s l s' -> forall m M, mons s' m = Some M -> exists R, roots s' (m_root M) = Some R.
Proof.
  intros I HS. pose proof (i_root s I) as IR.
  cases HS; splitcb; intros m1 M1 Hm1; lk; eauto; try congruence.
Qed.

Lemma pres_self s l s' : Inv s -> Step s l s' -> forall m M, mons s' m = Some M -> m_parent M = None -> m_root M = m.
Proof.
  intros I HS. pose proof (i_self s I) as IS.
  cases HS; splitcb; intros m1 M1 Hm1 Hp1; lk; eauto; try discriminate.
Qed.

Ltac use_mon I :=
  repeat match goal with
         | A : mons ?s ?m = Some ?M, B : m_phase ?M = _ |- _ =>
           lazymatch goal with
           | _ : mon_ok M |- _ => fail
           | _ => let OK := fresh "OK" in pose proof (i_mon s I m M A) as OK
           end
         end.

Lemma pres_mon s l s' : Inv s -> Step s l s' -> forall m M, mons s' m = Some M -> mon_ok M.
Proof.
  intros I HS. pose proof (i_mon s I) as IM.
  cases HS; splitcb; intros m1 M1 Hm1; lk; eauto.
  all: use_mon I; unfold mon_ok, failed_of in *; simpl in *.
  all: repeat match goal with A : m_phase _ = _, B : context[m_phase _] |- _ => rewrite A in B; simpl in B end.
  all: repeat match goal with A : _ /\ _ |- _ => destruct A end.
  all: repeat match goal with E : m_stamps _ = [] |- _ => rewrite E in *; clear E end; simpl in *.
  all: intuition (try congruence).
Qed.

(* rewrite weight sums of the successor state into sums of s plus the change at one monitor *)
Ltac wsums I :=
  repeat match goal with
  | |- context[wsum ?w (add_m ?s1 ?c ?C)] =>
      rewrite (wsum_add_m w s1 c C) by (simpl; apply not_in_ids; assumption)
  | |- context[wsum ?w (set_m ?s1 ?m ?M')] =>
      match goal with
      | A : mons _ m = Some ?M |- _ =>
        let E := fresh "WS" in
        let x := fresh "x" in
        assert (E : wsum w (set_m s1 m M') + w M = wsum w s1 + w M')
          by (apply wsum_set_m; simpl; [apply (i_nodup _ I) | eapply in_ids; eauto | exact A]);
        set (x := wsum w (set_m s1 m M')) in *; clearbody x
      end
  | |- context[wsum ?w (set_r ?s1 ?r ?R)] => change (wsum w (set_r s1 r R)) with (wsum w s1) in *
  | |- context[wsum ?w (set_obs ?s1 ?r ?R)] => change (wsum w (set_obs s1 r R)) with (wsum w s1) in *
  | |- context[wsum ?w (set_q ?s1 ?r ?R)] => change (wsum w (set_q s1 r R)) with (wsum w s1) in *
  | |- context[wsum ?w (set_panic ?s1 ?r)] => change (wsum w (set_panic s1 r)) with (wsum w s1) in *
  end.

Ltac wnorm :=
  repeat match goal with
  | H : context[wsum ?w (set_r ?s1 ?r ?R)] |- _ => change (wsum w (set_r s1 r R)) with (wsum w s1) in H
  | H : context[wsum ?w (set_obs ?s1 ?r ?R)] |- _ => change (wsum w (set_obs s1 r R)) with (wsum w s1) in H
  | H : context[wsum ?w (set_q ?s1 ?r ?R)] |- _ => change (wsum w (set_q s1 r R)) with (wsum w s1) in H
  | H : context[wsum ?w (set_panic ?s1 ?r)] |- _ => change (wsum w (set_panic s1 r)) with (wsum w s1) in H
  end.

Lemma wsum_none w s : (forall m M, mons s m = Some M -> w M = 0) -> wsum w s = 0.
Proof.
  intros H. unfold wsum. induction (ids s) as [|a l IH]; simpl; [reflexivity|].
  rewrite IH. destruct (mons s a) eqn:E; [rewrite (H a m E)|]; reflexivity.
Qed.

Lemma count_fresh_root s r : Inv s -> roots s r = None -> forall f, wsum (fun M => if Nat.eqb (m_root M) r && f M then 1 else 0) s = 0.
Proof.
  intros I H f. apply wsum_none. intros m M Hm.
  destruct (Nat.eqb_spec (m_root M) r); [|reflexivity].
  destruct (i_root s I m M Hm) as [R HR]. congruence.
Qed.

Ltac phases :=
  repeat match goal with A : m_phase ?M = _ |- _ => rewrite A in *; clear A end.

Lemma pres_count s l s' : Inv s -> Step s l s' -> forall r R, roots s' r = Some R -> r_unf R = Z.of_nat (count_unf s' r).
Proof.
  intros I HS. pose proof (i_count s I) as IC.
  cases HS; splitcb; intros r0 RR Hr0; unfold count_unf in *; wsums I; wnorm; unfold w_unf in *; lk; phases;
    unfold b2n in *; simpl in *;
    repeat match goal with A : roots s ?r = Some ?R |- _ => apply IC in A end; try lia.
  match goal with A : roots s ?r = None |- _ => rewrite (count_fresh_root s r I A (fun M => unfinb (m_phase M))) end. reflexivity.
Qed.

Lemma unf_pos s m M : Inv s -> mons s m = Some M -> unfinb (m_phase M) = true -> 1 <= count_unf s (m_root M).
Proof.
  intros I Hm Hu. pose proof (wsum_ge (w_unf (m_root M)) s m M (in_ids s m M I Hm) Hm) as G.
  unfold w_unf in G at 1. rewrite Nat.eqb_refl, Hu in G. exact G.
Qed.

Lemma pres_cross s l s' : Inv s -> Step s l s' -> forall r R, roots s' r = Some R -> r_crossed R = if Z.eqb (r_unf R) 0 then 1 else 0.
Proof.
  intros I HS. pose proof (i_cross s I) as IX. pose proof (i_count s I) as IC.
  cases HS; splitcb; intros r0 RR Hr0; lk; eauto;
    repeat match goal with A : mons s ?m = Some ?M, B : m_phase ?M = _ |- _ =>
       pose proof (unf_pos s m M I A); rewrite B in *; clear B end; simpl in *;
    repeat match goal with A : roots s ?r = Some ?R |- _ => pose proof (IX _ _ A); pose proof (IC _ _ A); clear A end;
    repeat match goal with |- context[Z.eqb ?a ?b] => destruct (Z.eqb_spec a b) | A : context[Z.eqb ?a ?b] |- _ => destruct (Z.eqb_spec a b) end; try lia.
Qed.


Lemma crossed_le1 s r R : Inv s -> roots s r = Some R -> r_crossed R <= 1.
Proof. intros I H. rewrite (i_cross s I r R H). destruct (Z.eqb _ _); lia. Qed.

Lemma unfin_unposted s m M R : Inv s -> mons s m = Some M -> unfinb (m_phase M) = true ->
  roots s (m_root M) = Some R -> r_posted R = 0 /\ r_crossed R = 0.
Proof.
  intros I Hm Hu HR. pose proof (unf_pos s m M I Hm Hu) as P.
  pose proof (i_count s I _ _ HR) as C. pose proof (i_cross s I _ _ HR) as X. pose proof (i_post s I _ _ HR) as Q.
  destruct (Z.eqb_spec (r_unf R) 0); lia.
Qed.

Lemma fz_unposted s m M R : Inv s -> mons s m = Some M -> m_phase M = PFinZero ->
  roots s (m_root M) = Some R -> r_posted R = 0 /\ r_crossed R = 1.
Proof.
  intros I Hm Hp HR. pose proof (wsum_ge (w_fz (m_root M)) s m M (in_ids s m M I Hm) Hm) as G.
  unfold w_fz in G at 1. rewrite Nat.eqb_refl, Hp in G. simpl in G.
  pose proof (i_post s I _ _ HR). pose proof (crossed_le1 s _ R I HR). lia.
Qed.

Lemma pres_post s l s' : Inv s -> Step s l s' -> forall r R, roots s' r = Some R -> r_posted R + wsum (w_fz r) s' = r_crossed R.
Proof.
  intros I HS. pose proof (i_post s I) as IP.
  cases HS; splitcb; intros r0 RR Hr0; wsums I; wnorm; unfold w_fz in *; lk; phases;
    unfold b2n in *; simpl in *;
    repeat match goal with A : roots s ?r = Some ?R |- _ => apply IP in A end; try lia.
  match goal with A : roots s ?r = None |- _ => rewrite (count_fresh_root s r I A (fun M => match m_phase M with PFinZero => true | _ => false end)) end. reflexivity.
Qed.

Lemma pres_poster s l s' : Inv s -> Step s l s' ->
  forall m M R cbs h, mons s' m = Some M -> m_phase M = PPosting cbs h -> roots s' (m_root M) = Some R -> 1 <= r_posted R.
Proof.
  intros I HS. pose proof (i_poster s I) as IP.
  cases HS; splitcb; intros m1 M1 R1 cbs1 h1 Hm1 Hp1 Hr1; lk; try discriminate; try congruence; eauto; try lia.
  all: try (match goal with A : mons _ ?m = Some ?M, B : m_phase ?M = PPosting _ _, C : roots _ (m_root ?M) = Some ?R |- _ =>
              pose proof (IP _ _ _ _ _ A B C); lia end).
  all: try (exfalso; match goal with A : mons _ ?m = Some ?M, B : roots _ (m_root ?M) = None |- _ => destruct (i_root _ I m M A); congruence end).
  all: try (match goal with e : m_root ?A = m_root ?B |- _ => rewrite <- e in *; eauto end).
Qed.

Lemma pres_wg s l s' : Inv s -> Step s l s' ->
  forall r R, roots s' r = Some R -> r_wg R = (Z.of_nat (b2n (r_wait R)) - Z.of_nat (b2n (r_released R)))%Z.
Proof.
  intros I HS. pose proof (i_wg s I) as IW.
  cases HS; splitcb; intros r0 RR Hr0; lk; eauto;
    repeat match goal with A : roots s ?r = Some ?R |- _ => apply IW in A end; unfold b2n in *;
    repeat match goal with |- context[if ?b then _ else _] => destruct b | A : context[if ?b then _ else _] |- _ => destruct b end; try lia.
Qed.

Lemma pres_rel s l s' : Inv s -> Step s l s' -> forall r R, roots s' r = Some R -> r_released R = true -> 1 <= r_posted R.
Proof.
  intros I HS. pose proof (i_rel s I) as IR. pose proof (i_poster s I) as IP.
  cases HS; splitcb; intros r0 RR Hr0 Hrel; lk; eauto; try discriminate.
  all: try (match goal with A : roots _ ?r = Some ?R |- _ => specialize (IR _ _ A); simpl in *; lia end).
Qed.

Lemma pres_fresh s l s' : Inv s -> Step s l s' -> forall r, roots s' r = None -> obs s' r = [].
Proof.
  intros I HS. pose proof (i_fresh s I) as IF.
  cases HS; splitcb; intros r0 Hr0; lk; eauto; try discriminate.
  all: exfalso; match goal with A : mons _ ?m = Some ?M, B : roots _ (m_root ?M) = None |- _ => destruct (i_root _ I m M A); congruence end.
Qed.

Ltac dedup :=
  repeat match goal with
  | A : roots ?s ?r = Some ?R1, B : roots ?s ?r = Some ?R2 |- _ =>
      first [ constr_eq R1 R2; clear B | rewrite A in B; injection B as B; try subst R2; try subst R1 ]
  | A : mons ?s ?r = Some ?R1, B : mons ?s ?r = Some ?R2 |- _ =>
      first [ constr_eq R1 R2; clear B | rewrite A in B; injection B as B; try subst R2; try subst R1 ]
  end.

Lemma pres_rootmon s l s' : Inv s -> Step s l s' ->
  forall r R, roots s' r = Some R -> exists M, mons s' r = Some M /\ m_root M = r /\ m_parent M = None /\ apc_ok R M.
Proof.
  intros I HS. pose proof (i_rootmon s I) as IR. pose proof (i_wg s I) as IW.
  cases HS; splitcb; intros r0 RR Hr0;
    repeat match goal with A : mons s ?m = Some ?M, B : m_parent ?M = None |- _ =>
       let Es := fresh "Es" in pose proof (i_self s I m M A B) as Es; rewrite Es in *; clear B end;
    lk; dedup;
    repeat match goal with A : roots s ?r = Some ?R |- _ =>
       let M := fresh "MR" in let A1 := fresh "Ra" in let A2 := fresh "Rb" in let A3 := fresh "Rc" in let A4 := fresh "Rd" in
       pose proof (IW _ _ A); destruct (IR _ _ A) as (M & A1 & A2 & A3 & A4); clear A end; lk; dedup;
    idtac.
  all: eexists; (split; [first [eassumption | reflexivity]|]); (split; [first [eassumption | reflexivity | simpl; congruence]|]);
       (split; [first [eassumption | reflexivity | simpl; congruence]|]).
  all: unfold apc_ok, pre_go in *; simpl in *.
  all: repeat match goal with A : r_apc _ = _ |- _ => rewrite A in *; clear A end; simpl in *.
  all: try match goal with A : context[r_apc ?R] |- _ => destruct (r_apc R) eqn:? end; simpl in *.
  all: repeat match goal with A : _ /\ _ |- _ => destruct A end.
  all: use_mon I; unfold mon_ok in *; phases; simpl in *; unfold b2n in *.
  all: try (intuition (try congruence; try discriminate; try lia); fail).
  all: try (match goal with A : mons _ ?m = Some ?M |- context[m_phase ?M] =>
               pose proof (i_mon _ I m M A) as OKK; unfold mon_ok in OKK; destruct (m_phase M) end;
            try match goal with |- context[if r_wait ?R then _ else _] => destruct (r_wait R) eqn:? end; simpl in *;
            intuition (try congruence; try discriminate; try lia); fail).
  rewrite H0 in *. destruct (r_released R); simpl in *; intuition lia.
Qed.

Lemma count_cb_app k l1 l2 : count_cb k (l1 ++ l2) = count_cb k l1 + count_cb k l2.
Proof. induction l1; simpl; lia. Qed.

Lemma pend_fresh_root s r : Inv s -> roots s r = None -> forall k, wsum (w_pend k r) s = 0.
Proof.
  intros I H k. apply wsum_none. intros m M Hm. unfold w_pend.
  destruct (Nat.eqb_spec (m_root M) r); [|reflexivity].
  destruct (i_root s I m M Hm) as [R HR]. congruence.
Qed.

Lemma pre_go_facts s r R : Inv s -> roots s r = Some R -> (pre_go R = true \/ r_apc R = ANew) ->
  r_trig R = false /\ r_posted R = 0 /\ (forall M, mons s r = Some M -> m_skipped M = false).
Proof.
  intros I HR Hp. destruct (i_rootmon s I r R HR) as (M & Hm & Hroot & Hpar & Hs & Hapc).
  assert (A : m_phase M = PCreated /\ r_trig R = false).
  { unfold pre_go in Hp. destruct (r_apc R); try exact Hapc; destruct Hp; discriminate. }
  destruct A as [A1 A2]. split; [exact A2|].
  assert (U : unfinb (m_phase M) = true) by (rewrite A1; reflexivity).
  split.
  - rewrite <- Hroot in HR. apply (unfin_unposted s r M R I Hm U HR).
  - intros M' HM'. rewrite Hm in HM'. injection HM' as <-.
    pose proof (i_mon s I r M Hm) as OK. unfold mon_ok in OK. rewrite A1 in OK. tauto.
Qed.

Lemma skipped_untrig s r R M : Inv s -> roots s r = Some R -> mons s r = Some M -> m_skipped M = true -> r_trig R = false.
Proof.
  intros I HR HM HS. destruct (i_rootmon s I r R HR) as (M' & Hm & _ & _ & Hs & _).
  rewrite HM in Hm. injection Hm as <-. auto.
Qed.

Ltac facts I :=
  try match goal with A : roots ?s ?r = Some ?R, B : mons ?s ?r = Some ?M, C : m_skipped ?M = true |- _ => pose proof (skipped_untrig s r R M I A B C) end;
  try match goal with A : roots ?s ?r = Some ?R, B : pre_go ?R = true |- _ => pose proof (pre_go_facts s r R I A (or_introl B)) end;
  try match goal with A : roots ?s ?r = Some ?R, B : r_apc ?R = ANew |- _ => pose proof (pre_go_facts s r R I A (or_intror B)) end;
  try match goal with A : roots ?s ?r = None |- _ => pose proof (pend_fresh_root s r I A CbHandler); pose proof (pend_fresh_root s r I A CbWaiter); pose proof (i_fresh s I r A) end;
  repeat match goal with A : mons ?s ?m = Some ?M, B : m_phase ?M = PFinZero, C : roots ?s (m_root ?M) = Some ?R |- _ =>
       pose proof (fz_unposted s m M R I A B C); revert B end; intros;
  repeat match goal with A : mons ?s ?m = Some ?M, B : m_phase ?M = PPosting _ _, C : roots ?s (m_root ?M) = Some ?R |- _ =>
       pose proof (i_poster s I _ _ _ _ _ A B C); revert B end; intros;
  repeat match goal with A : obs _ _ = _ |- _ => rewrite A in *; revert A end; intros.

Lemma pres_handler s l s' : Inv s -> Step s l s' -> forall r R, roots s' r = Some R ->
  r_handler R + wsum (w_pend CbHandler r) s' + (if Nat.eqb (r_posted R) 0 then count_cb CbHandler (obs s' r) else 0) = b2n (r_trig R).
Proof.
  intros I HS. pose proof (i_handler s I) as IH.
  cases HS; splitcb; intros r0 RR Hr0;
    wsums I; wnorm; lk; dedup; facts I;
    repeat match goal with A : roots s ?r = Some ?R |- _ => pose proof (IH _ _ A); revert A end; intros;
    repeat match goal with A : obs _ _ = _ |- _ => rewrite A in *; revert A end; intros;
    unfold w_pend in *; lk; phases; rewrite ?count_cb_app; simpl in *;
    unfold b2n in *;
    repeat match goal with c : cb |- _ => destruct c end;
    repeat match goal with |- context[if ?b then _ else _] => destruct b eqn:? | A : context[if ?b then _ else _] |- _ => destruct b eqn:? end;
    simpl in *; try lia; try discriminate; try congruence.
Qed.

Lemma remove_nat_in x m q : In x (remove_nat m q) -> In x q.
Proof. induction q as [|a q IH]; simpl; [tauto|]. destruct (Nat.eqb m a); simpl; tauto. Qed.

Lemma remove_nat_nodup m q : NoDup q -> NoDup (remove_nat m q) /\ ~ In m (remove_nat m q).
Proof.
  induction q as [|a q IH]; simpl; intros ND; [split; [constructor|tauto]|].
  inversion ND; subst. destruct (Nat.eqb_spec m a).
  - subst. split; assumption.
  - destruct (IH H2) as [A B]. split.
    + constructor; [intros C; apply H1; eapply remove_nat_in; eauto | exact A].
    + simpl. intros [C|C]; [congruence|contradiction].
Qed.

Lemma remove_nat_keep x m q : x <> m -> In x q -> In x (remove_nat m q).
Proof.
  induction q as [|a q IH]; simpl; [tauto|]. intros Hn [->|H].
  - destruct (Nat.eqb_spec m x); [congruence|left; reflexivity].
  - destruct (Nat.eqb m a); [exact H|right; auto].
Qed.

Lemma mem_nat_in x l : mem_nat x l = true -> In x l.
Proof.
  induction l as [|a l IH]; simpl; [discriminate|]. destruct (Nat.eqb_spec x a); simpl; [left; congruence|right; auto].
Qed.

Lemma in_mem_nat x l : In x l -> mem_nat x l = true.
Proof.
  induction l as [|a l IH]; simpl; [tauto|]. intros [->|H]; [rewrite Nat.eqb_refl; reflexivity|].
  rewrite (IH H). apply orb_true_r.
Qed.

