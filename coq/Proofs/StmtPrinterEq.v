(* Proofs/StmtPrinterEq.v — C08, statement level: the structural statement printer [pp_stmt] /
   [pp_prog] of Model/StmtPrinter.v IS the correspondence-checked printer model [pp] of
   Model/Printer.v on every embedded tree of the covered statement kinds; [pp] ignores token
   positions.  Hence the round-trip theorem speaks about the printer the correspondence check
   (Run/RunC08.v) compares with the real output, and printing is idempotent. *)
From Coq Require Import List String NArith Bool Arith Lia ZArith.
From Ecal Require Import Common.Bytes Common.Ast gen.Tokens gen.Grammar
     Model.Printer Proofs.PrinterProofs Model.StmtPrinter Spec.StmtFormatSpec Proofs.StmtExpr Proofs.StmtProofs.
Import ListNotations.
Local Open Scope string_scope.
Local Open Scope nat_scope.
Local Open Scope list_scope.

(* ---------------------------------------------------------------------------------- *)
(* pp of a node whose children need no brackets *)

Definition go_fix (par : cls) :=
  fix go (idx : nat) (l : list node) {struct l} : list (list item) :=
    match l with
    | [] => []
    | c :: r => (if needs par idx c then kw TokenLPAREN :: pp c ++ [kw TokenRPAREN] else pp c) :: go (S idx) r
    end.

Lemma pp_node name v i a ln cs :
  pp (Node name v i a ln cs) =
  assemble str_allow true (classify_nc name (List.length cs)) name v a cs (go_fix (classify_nc name (List.length cs)) 0 cs).
Proof. reflexivity. Qed.

Lemma go_plain par cs : (forall idx c, In c cs -> needs par idx c = false) -> forall idx, go_fix par idx cs = map pp cs.
Proof.
  induction cs as [|c cs IH]; intros H idx; cbn [go_fix map]; [reflexivity|].
  rewrite (H idx c (or_introl eq_refl)). f_equal. apply IH. intros j d Hd. apply H. right; exact Hd.
Qed.

(* a child that never needs brackets under a statement node *)
Definition plain (c : node) : Prop := eligible (n_name c) = false \/ exists e, wfe e /\ c = erase e.

Lemma needs_other_expr idx e : wf_expr e -> needs COther idx e = false.
Proof.
  intros W. unfold needs. destruct W as [id v i a ln Ha Hs | id v i a ln l r Hi Hl Hr He | id v i a ln x Hp Hel Hx];
    unfold classify; cbn [n_name n_children List.length].
  - rewrite classify_atom by assumption. destruct (eligible (name_of id)); reflexivity.
  - rewrite classify_bin by assumption. rewrite (eligible_infix id Hi).
    destruct (infix_facts id Hi) as (Hpos & _). cbn [ctx_of]. apply Nat.leb_gt. exact Hpos.
  - rewrite classify_pre by assumption. rewrite Hel. cbn [ctx_of]. apply Nat.ltb_ge. lia.
Qed.

Lemma needs_plain idx c : plain c -> needs COther idx c = false.
Proof.
  intros [H|[e [W ->]]].
  - unfold needs. rewrite H. reflexivity.
  - pose proof (wfe_wf e W) as W'. rewrite needs_erase by exact W'. apply needs_other_expr; exact W'.
Qed.

Lemma pp_other name v i a ln cs :
  classify_nc name (List.length cs) = COther -> Forall plain cs ->
  pp (Node name v i a ln cs) = assemble_special true name v cs (map pp cs).
Proof.
  intros Hc Hp. rewrite pp_node, Hc. rewrite go_plain.
  - destruct (map pp cs) as [|k1 [|k2 [|k3 r]]]; reflexivity.
  - intros idx c Hin. apply needs_plain. rewrite Forall_forall in Hp. apply Hp; exact Hin.
Qed.

Lemma classify_other name : infix_of name = None -> prefix_of name = None -> term_of name = None ->
  forall n, classify_nc name n = COther.
Proof. intros H1 H2 H3 n. unfold classify_nc. destruct n as [|[|[|n]]]; rewrite ?H1, ?H2, ?H3; reflexivity. Qed.

Ltac other := apply classify_other; vm_compute; reflexivity.

Lemma plain_knode name cs : eligible name = false -> plain (knode name cs).
Proof. intros H. left. exact H. Qed.

Lemma plain_erase e : wfe e -> plain (erase e).
Proof. intros W. right. exists e. auto. Qed.

Lemma pp_erase' e : wfe e -> pp (erase e) = pp e.
Proof. intros W. apply pp_erase. apply wfe_wf; exact W. Qed.

(* ---------------------------------------------------------------------------------- *)
(* statements *)

Lemma plain_embed s : wfS s -> plain (embed s).
Proof.
  destruct s; cbn [wfS embed]; intros W; try contradiction;
    try (apply plain_knode; vm_compute; reflexivity).
  apply plain_erase; exact W.
Qed.

Lemma pp_statements cs : Forall plain cs -> pp (knode NodeSTATEMENTS cs) = lines_sep (map pp cs).
Proof. intros H. unfold knode. rewrite pp_other; [reflexivity | other | exact H]. Qed.

Lemma pp_guard e : wfe e -> pp (knode NodeGUARD [erase e]) = pp e.
Proof.
  intros W. unfold knode. rewrite pp_other; [| other | constructor; [apply plain_erase; exact W | constructor]].
  cbn [map]. rewrite pp_erase' by exact W. reflexivity.
Qed.

Definition EqS (s : stmt) : Prop := wfS s -> pp (embed s) = pp_stmt s.
Definition EqB (b : sblock) : Prop :=
  wfB b -> Forall plain (embed_block b) /\ lines_sep (map pp (embed_block b)) = pp_lines b
           /\ lines_more (map pp (embed_block b)) = pp_more b.

(* the children of an if node after the first pair *)
Definition EqT (r : iftail) : Prop :=
  wfT r -> forall pre : list node,
    Forall plain (embed_tail r) /\
    if_tail (combine (embed_tail r) (map pp (embed_tail r))) = pp_tail r.

Lemma eqb_block b : EqB b ->
  wfB b -> pp (knode NodeSTATEMENTS (embed_block b)) = pp_lines b /\ plain (knode NodeSTATEMENTS (embed_block b)).
Proof.
  intros H W. destruct (H W) as (Hp & He & _). split; [rewrite pp_statements by exact Hp; exact He|].
  apply plain_knode. vm_compute. reflexivity.
Qed.

Lemma first_child_guard x : first_child_name (knode NodeGUARD [x]) = n_name x.
Proof. reflexivity. Qed.

Theorem printer_eq :
  (forall s, EqS s) /\ (forall b, EqB b) /\ (forall r, EqT r) /\
  (forall (e : StmtPrinter.excepts), True) /\ (forall (o : oblock), True).
Proof.
  apply stmt_mutind; try (intros; exact I).
  - (* expr *) intros e W. cbn [wfS] in W. cbn [embed]. apply pp_erase'; exact W.
  - (* return *) intros _. reflexivity.
  - intros e W. cbn [wfS] in W. cbn [embed]. unfold knode. rewrite pp_other; [| other | constructor; [apply plain_erase; exact W | constructor]].
    cbn [map]. rewrite pp_erase' by exact W. reflexivity.
  - (* if *) intros g b Hb r Hr W. cbn [wfS] in W. destruct W as (Wg & Wb & Wr).
    destruct (eqb_block b Hb Wb) as [Eb Pb]. destruct (Hr Wr []) as [Pr Er].
    cbn [embed]. unfold knode at 1. rewrite pp_other; [| other |].
    2:{ constructor; [apply plain_knode; vm_compute; reflexivity|]. constructor; [exact Pb | exact Pr]. }
    cbn [map]. rewrite pp_guard by exact Wg. rewrite Eb.
    unfold assemble_special. cbn [String.eqb Ascii.eqb Bool.eqb NodeIF NodeSTATEMENTS NodeFUNCCALL NodeLIST NodeMAP NodePARAMS NodeIDENTIFIER].
    cbn [combine skipn]. rewrite Er. reflexivity.
  - (* for *) intros g b Hb W. cbn [wfS] in W. destruct W as (Wg & Wb).
    destruct (eqb_block b Hb Wb) as [Eb Pb].
    cbn [embed]. unfold knode at 1. rewrite pp_other; [| other |].
    2:{ constructor; [|constructor; [exact Pb|constructor]].
        destruct (root_id g =? TokenIN); [apply plain_erase; exact Wg | apply plain_knode; vm_compute; reflexivity]. }
    cbn [map]. rewrite Eb.
    assert (Hg : pp (if root_id g =? TokenIN then erase g else knode NodeGUARD [erase g]) = pp g).
    { destruct (root_id g =? TokenIN); [apply pp_erase' | apply pp_guard]; exact Wg. }
    rewrite Hg. reflexivity.
  - (* mutex *) intros x b Hb W. cbn [wfS] in W.
    destruct (eqb_block b Hb W) as [Eb Pb].
    cbn [embed]. unfold knode at 1. rewrite pp_other; [| other |].
    2:{ constructor; [left; vm_compute; reflexivity|]. constructor; [exact Pb|constructor]. }
    cbn [map]. rewrite Eb. reflexivity.
  - (* try *) intros b _ ex _ ow _ fin _ W. destruct W.
  - (* func *) intros x ps b _ W. destruct W.
  - (* BNil *) intros _. split; [constructor | split; reflexivity].
  - (* BCons *) intros s Hs b Hb W. cbn [wfB] in W. destruct W as (Ws & Wr). destruct (Hb Wr) as (Pb & _ & Eb).
    cbn [embed_block map lines_sep lines_more pp_lines pp_more]. split; [constructor; [apply plain_embed; exact Ws | exact Pb]|].
    rewrite (Hs Ws), Eb. split; reflexivity.
  - (* INone *) intros _ _. split; [constructor | reflexivity].
  - (* IElse *) intros b Hb W _. cbn [wfT] in W. destruct (eqb_block b Hb W) as [Eb Pb].
    cbn [embed_tail]. split; [constructor; [apply plain_knode; vm_compute; reflexivity | constructor; [exact Pb | constructor]]|].
    cbn [map combine if_tail]. rewrite Eb. rewrite first_child_guard. cbn [n_name knode]. rewrite String.eqb_refl, app_nil_r. reflexivity.
  - (* IElif *) intros g b Hb r Hr W _. cbn [wfT] in W. destruct W as (Wg & Wb & Wr & Hlast).
    destruct (eqb_block b Hb Wb) as [Eb Pb]. destruct (Hr Wr []) as [Pr Er].
    cbn [embed_tail]. split; [constructor; [apply plain_knode; vm_compute; reflexivity | constructor; [exact Pb | exact Pr]]|].
    cbn [map combine]. rewrite pp_guard by exact Wg. rewrite Eb.
    destruct r as [|b'|g' b' r'].
    + cbn [embed_tail map combine if_tail]. rewrite first_child_guard, erase_name.
      apply String.eqb_neq in Hlast. rewrite Hlast. cbn [pp_tail]. rewrite !app_nil_r. reflexivity.
    + cbn [if_tail]. cbn [embed_tail map combine] in *. rewrite Er. cbn [pp_tail app]. rewrite <- app_assoc. reflexivity.
    + cbn [if_tail]. cbn [embed_tail map combine] in *. rewrite Er. cbn [pp_tail app]. rewrite <- app_assoc. reflexivity.
Qed.
