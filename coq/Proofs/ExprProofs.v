(* Proofs/ExprProofs.v — the operator helpers of Model/Expr.v refine Spec/ExprSemSpec.v. *)
From Coq Require Import List String NArith ZArith Bool Arith Floats Lia.
From Ecal Require Import Common.Bytes Common.Ast gen.Tokens Model.Expr Spec.ExprGrammarSpec Spec.ExprSemSpec.
Import ListNotations.
Local Open Scope Z_scope.

(* ---------------------------------------------------------------- floor, remainder *)

Lemma floor_mag_spec s m e : e < 0 -> floor_mag s m e = spec_floorZ s m e.
Proof.
  intros He. unfold floor_mag, spec_floorZ.
  assert (Hk : 0 <= - e) by lia.
  rewrite Z.shiftr_div_pow2 by exact Hk. rewrite Z.shiftl_mul_pow2 by exact Hk.
  set (k := 2 ^ (- e)). assert (Hkp : 0 < k) by (apply Z.pow_pos_nonneg; lia).
  destruct s; [|reflexivity].
  change (Z.neg m) with (- Z.pos m).
  destruct (Z.eqb_spec (Z.pos m / k * k) (Z.pos m)) as [Heq|Hne].
  - rewrite Z.div_opp_l_z; [reflexivity | lia |].
    rewrite Z.mod_eq by lia. lia.
  - rewrite Z.div_opp_l_nz; [lia | lia |].
    rewrite Z.mod_eq by lia. lia.
Qed.

(* the characteristic property of the floor: z * 2^k <= +-m < (z + 1) * 2^k *)
Lemma spec_floorZ_is_floor (s : bool) (m : positive) (e : Z) : e < 0 ->
  let x := if s then Z.neg m else Z.pos m in
  let z := spec_floorZ s m e in
  z * 2 ^ (- e) <= x < (z + 1) * 2 ^ (- e).
Proof.
  intros He x z. unfold z, spec_floorZ. fold x.
  assert (Hkp : 0 < 2 ^ (- e)) by (apply Z.pow_pos_nonneg; lia).
  pose proof (Z.div_mod x (2 ^ (- e)) ltac:(lia)).
  pose proof (Z.mod_pos_bound x (2 ^ (- e)) Hkp). nia.
Qed.

Lemma float_floor_spec x : float_floor x = spec_floor x.
Proof.
  unfold float_floor, spec_floor. destruct (Prim2SF x) as [| | |s m e]; try reflexivity.
  destruct (Z.leb_spec 0 e) as [|He]; [reflexivity|].
  rewrite floor_mag_spec by exact He.
  destruct (Z.ltb_spec (spec_floorZ s m e) 0) as [|Hz]; [reflexivity|].
  destruct s; [|reflexivity]. exfalso.
  pose proof (spec_floorZ_is_floor true m e He) as H. cbv zeta in H.
  assert (0 < 2 ^ (- e)) by (apply Z.pow_pos_nonneg; lia).
  cbn iota in H. destruct H as [H _].
  assert (0 <= spec_floorZ true m e * 2 ^ (- e)) by (apply Z.mul_nonneg_nonneg; lia).
  pose proof (Pos2Z.neg_is_neg m). lia.
Qed.

Lemma rem_spec a b : Z.rem a b = a - b * Z.quot a b.
Proof. pose proof (Z.quot_rem' a b). lia. Qed.

(* truncated remainder: |r| < |b| and r has the sign of the dividend (or is zero) *)
Lemma rem_truncated a b : b <> 0 ->
  let r := Z.rem a b in a = b * Z.quot a b + r /\ Z.abs r < Z.abs b /\ 0 <= r * a.
Proof.
  intros Hb r. split; [apply Z.quot_rem'|]. split; [apply Z.rem_bound_abs; exact Hb|].
  unfold r. pose proof (Z.rem_sign_mul a b Hb). lia.
Qed.

(* ---------------------------------------------------------------- strings *)

Lemma bytes_ltb_lex a b : bytes_ltb a b = lex_lt a b.
Proof.
  revert b; induction a as [|x a IH]; intros [|y b]; simpl; try reflexivity.
  rewrite IH. destruct (N.ltb_spec x y), (N.ltb_spec y x), (N.eqb_spec x y); simpl; try reflexivity; lia.
Qed.

Lemma list_mem_scalar v l : is_scalar v = true -> forallb is_scalar l = true ->
  list_mem v l = Some (existsb (scalar_eq_any v) l).
Proof.
  intros Hv. induction l as [|x l IH]; simpl; [reflexivity|].
  intros H. apply andb_true_iff in H as [Hx Hl]. rewrite (IH Hl).
  destruct v, x; try discriminate; simpl; unfold scalar_eq_any; simpl; try reflexivity;
    match goal with |- context [if ?c then _ else _] => destruct c end; reflexivity.
Qed.

Lemma val_eq_scalar a b : is_scalar a = true -> is_scalar b = true ->
  val_eq a b = Some (scalar_eq_any a b).
Proof. destruct a, b; try discriminate; reflexivity. Qed.

(* ---------------------------------------------------------------- refinement *)

Definition named_ok (nm : bytes) (idf : bool) (c : node) : Prop := nm = n_val c /\ idf = n_ident c.

Definition refines_bin (rx : list (bytes * bytes * option bool)) (o : binop) (path : list nat)
           (c1 c2 : node) (v1 v2 : value) (r : eres) : Prop :=
  match r with
  | RVal v => spec_bin rx o v1 v2 (SVal v)
  | RErr c nm idf at_node =>
    exists i, spec_bin rx o v1 v2 (SErr c i) /\ named_ok nm idf (nth i [c1; c2] c1)
  | RPanic _ | RUnmodelled _ => fixed_bin rx o v1 v2 = false
  end.

Ltac err_case i :=
  exists i; split; [simpl; auto | split; reflexivity].

Lemma str_op_any rx o path c1 c2 v1 v2 sop :
  (forall r, spec_bin rx o v1 v2 (SVal r)) -> fixed_bin rx o v1 v2 = false ->
  refines_bin rx o path c1 c2 v1 v2 (str_op sop (RVal v1) (RVal v2)).
Proof.
  intros H1 H2. unfold str_op, both.
  destruct (sprint v1), (sprint v2); cbn [refines_bin]; try exact H2. apply H1.
Qed.

Lemma like_any rx path c1 c2 v1 v2 :
  (forall r, spec_bin rx OLike v1 v2 r) -> fixed_bin rx OLike v1 v2 = false ->
  refines_bin rx OLike path c1 c2 v1 v2 (like_op rx path c2 (RVal v1) (RVal v2)).
Proof.
  intros H1 H2. unfold like_op, both.
  destruct (sprint v1) as [s1|], (sprint v2) as [s2|]; cbn [refines_bin]; try exact H2.
  destruct (rx_get rx s2 s1) as [[t|]|]; cbn [refines_bin]; [apply H1 | | exact H2].
  exists 1%nat. split; [apply H1|]. split; reflexivity.
Qed.

Ltac cmp_tac :=
  unfold cmp_op, both;
  match goal with |- refines_bin _ _ _ _ _ ?v1 ?v2 _ => destruct v1, v2 end;
  try (apply str_op_any; [intros; exact I | reflexivity]);
  try reflexivity;
  unfold str_op, both; cbn [sprint refines_bin spec_bin spec_strcmp];
  unfold bytes_leb; rewrite ?bytes_ltb_lex; reflexivity.

Ltac strop_tac :=
  match goal with |- refines_bin _ _ _ _ _ ?v1 ?v2 _ => destruct v1, v2 end;
  try (apply str_op_any; [intros; exact I | reflexivity]);
  reflexivity.

Ltac listop_tac :=
  unfold list_op, both;
  match goal with |- refines_bin _ _ _ _ _ ?v1 ?v2 _ => destruct v2 end;
  try (err_case 1%nat);
  match goal with |- context [list_mem ?v1 ?l] =>
    destruct (is_scalar v1) eqn:H1;
    [ destruct (forallb is_scalar l) eqn:H2;
      [ rewrite (list_mem_scalar _ _ H1 H2); cbn [refines_bin spec_bin]; rewrite H1, H2; reflexivity
      | destruct (list_mem v1 l); cbn [refines_bin spec_bin fixed_bin]; rewrite H1, H2; simpl; auto ]
    | destruct (list_mem v1 l); cbn [refines_bin spec_bin fixed_bin]; rewrite H1; simpl; auto ]
  end.

Ltac genop_tac :=
  unfold gen_op, both;
  match goal with |- refines_bin _ _ _ _ _ ?v1 ?v2 _ =>
    destruct (is_scalar v1) eqn:H1, (is_scalar v2) eqn:H2;
    try (rewrite (val_eq_scalar _ _ H1 H2); cbn [refines_bin spec_bin]; rewrite H1, H2; reflexivity);
    destruct (val_eq v1 v2); cbn [refines_bin spec_bin fixed_bin]; rewrite H1, H2; simpl; auto
  end.

Theorem eval_refines_spec : forall rx o path c1 c2 v1 v2,
  o <> OAssign ->
  refines_bin rx o path c1 c2 v1 v2 (eval_op rx (bin_name o) path [c1; c2] [RVal v1; RVal v2]).
Proof.
  intros rx o path c1 c2 v1 v2 Hna.
  destruct o; try congruence; clear Hna; unfold eval_op, name_is; cbn [bin_name];
    repeat match goal with
           | |- context [String.eqb ?a ?b] =>
             let t := eval vm_compute in (String.eqb a b) in change (String.eqb a b) with t
           end; cbv iota.
  (* arithmetic *)
  1-6: (destruct v1, v2; simpl; try (err_case 0%nat); try (err_case 1%nat); try reflexivity).
  - (* divint *) unfold op_divint. rewrite float_floor_spec. reflexivity.
  - (* modint *) unfold op_modint.
    destruct (float_trunc f) as [a|] eqn:E1, (float_trunc f0) as [b|] eqn:E2;
      cbn [refines_bin fixed_bin spec_bin spec_arith]; unfold spec_mod; rewrite ?E1, ?E2; try reflexivity.
    destruct (b =? 0) eqn:E3; cbn [refines_bin fixed_bin spec_bin spec_arith]; unfold spec_mod;
      rewrite E1, E2, E3; [reflexivity | rewrite rem_spec; reflexivity].
  - (* >= *) cmp_tac.
  - (* <= *) cmp_tac.
  - (* != *) genop_tac.
  - (* == *) genop_tac.
  - (* > *) cmp_tac.
  - (* < *) cmp_tac.
  - (* like *)
    destruct v1, v2; try (apply like_any; [intros; exact I | reflexivity]).
    unfold like_op, both; cbn [sprint].
    destruct (rx_get rx s0 s) as [[t|]|] eqn:E; cbn [refines_bin spec_bin fixed_bin]; rewrite E; auto.
    exists 1%nat. split; [exact I|]. split; reflexivity.
  - (* in *) listop_tac.
  - (* hasprefix *) strop_tac.
  - (* hassuffix *) strop_tac.
  - (* notin *) listop_tac.
  - (* and *) destruct v1, v2; simpl; try (err_case 0%nat); try (err_case 1%nat); reflexivity.
  - (* or *) destruct v1, v2; simpl; try (err_case 0%nat); try (err_case 1%nat); reflexivity.
Qed.

(* where the text determines the outcome the model yields a value or an error, never a
   panic / an unmodelled outcome *)
Corollary fixed_bin_modelled rx o path c1 c2 v1 v2 :
  o <> OAssign -> fixed_bin rx o v1 v2 = true ->
  match eval_op rx (bin_name o) path [c1; c2] [RVal v1; RVal v2] with
  | RVal _ | RErr _ _ _ _ => True
  | _ => False
  end.
Proof.
  intros Hna Hf. pose proof (eval_refines_spec rx o path c1 c2 v1 v2 Hna) as H.
  destruct (eval_op rx (bin_name o) path [c1; c2] [RVal v1; RVal v2]); simpl in H; auto; congruence.
Qed.

(* ---------------------------------------------------------------- wrong kind *)

Definition arith_op (o : binop) : bool :=
  match o with OPlus | OMinus | OTimes | ODiv | ODivInt | OModInt => true | _ => false end.
Definition bool_binop (o : binop) : bool := match o with OAnd | OOr => true | _ => false end.
Definition kind_ok (o : binop) (v : value) : bool := if arith_op o then is_num v else is_bool v.
Definition class_of (o : binop) : ecls := if arith_op o then ENotANumber else ENotABoolean.

Theorem wrong_kind_is_error : forall rx o path c1 c2 v1 v2,
  arith_op o || bool_binop o = true ->
  kind_ok o v1 && kind_ok o v2 = false ->
  exists i at_node, (i = 0 \/ i = 1)%nat /\
    kind_ok o (nth i [v1; v2] v1) = false /\
    eval_op rx (bin_name o) path [c1; c2] [RVal v1; RVal v2]
    = RErr (class_of o) (n_val (nth i [c1; c2] c1)) (n_ident (nth i [c1; c2] c1)) at_node.
Proof.
  intros rx o path c1 c2 v1 v2 Ho Hk.
  destruct o; try discriminate; clear Ho; unfold eval_op, name_is; cbn [bin_name];
    repeat match goal with
           | |- context [String.eqb ?a ?b] =>
             let t := eval vm_compute in (String.eqb a b) in change (String.eqb a b) with t
           end; cbv iota;
    destruct v1, v2; try discriminate Hk;
    solve [ exists 0%nat; eexists; split; [left; reflexivity|]; split; reflexivity
          | exists 1%nat; eexists; split; [right; reflexivity|]; split; reflexivity ].
Qed.

(* prefix operators *)
Theorem eval_pre_refines : forall rx o path c v,
  match eval_op rx (pre_name o) path [c] [RVal v] with
  | RVal r => spec_pre o v (SVal r)
  | RErr cl nm idf at_node => at_node = 0%nat :: path /\ spec_pre o v (SErr cl 0) /\ named_ok nm idf c
  | _ => False
  end.
Proof.
  intros rx o path c v. destruct o, v; cbn; repeat split; reflexivity.
Qed.

(* ---------------------------------------------------------------- nodes *)

(* evaluating an operator node is applying the operator to the results of its operands,
   left to right *)
Lemma eval_binary env rx path o i c1 c2 :
  o <> OAssign ->
  eval env rx path (leaf_of (bin_name o) i [c1; c2])
  = eval_op rx (bin_name o) path [c1; c2] [eval env rx (0%nat :: path) c1; eval env rx (1%nat :: path) c2].
Proof. intros H. destruct o; try congruence; reflexivity. Qed.

Lemma eval_prefix env rx path o i c :
  eval env rx path (leaf_of (pre_name o) i [c]) = eval_op rx (pre_name o) path [c] [eval env rx (0%nat :: path) c].
Proof. destruct o; reflexivity. Qed.

(* an operand that fails makes the operator fail with the same outcome (first operand first) *)
Lemma eval_op_propagates rx o path c1 c2 r1 r2 :
  o <> OAssign ->
  (forall v, r1 <> RVal v) -> eval_op rx (bin_name o) path [c1; c2] [r1; r2] = r1.
Proof.
  intros Hna H. destruct o; try congruence; unfold eval_op, name_is; cbn [bin_name];
    repeat match goal with
           | |- context [String.eqb ?a ?b] =>
             let t := eval vm_compute in (String.eqb a b) in change (String.eqb a b) with t
           end; cbv iota;
    unfold num_op, bool_op, cmp_op, gen_op, like_op, str_op, list_op, both;
    destruct r1; try reflexivity; exfalso; eapply H; reflexivity.
Qed.
