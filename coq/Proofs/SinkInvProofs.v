(* Proofs/SinkInvProofs.v — lemmas about Model/SinkInv.v against Spec/IsolationSpec.v *)
From Coq Require Import List Bool Arith String Lia.
From Ecal Require Import Common.Sched Model.SinkInv Spec.IsolationSpec.
Import ListNotations.
Local Open Scope nat_scope.

(* ------------------------------------------------------------------------------------ *)
(* A small generic non-interference lemma: components that step on their own data only.   *)

Section NonInterference.
  Variables (E L : Type).
  Variable lstep : nat -> L -> option L.               (* component i alone *)

  Definition gstep (s : E * list L) (t : nat) : option (E * list L) :=
    match nth_error (snd s) t with
    | None => None
    | Some l => match lstep t l with
                | None => None
                | Some l' => Some (fst s, upd (snd s) t l')
                end
    end.

  Fixpoint iter (i : nat) (k : nat) (l : L) : option L :=
    match k with
    | 0 => Some l
    | S k' => match lstep i l with Some l' => iter i k' l' | None => None end
    end.

  Lemma nth_error_upd (l : list L) n m x :
    nth_error (upd l n x) m =
    if Nat.eqb n m then match nth_error l n with Some _ => Some x | None => None end
    else nth_error l m.
  Proof.
    revert n m; induction l as [|a r IH]; intros n m.
    - simpl. destruct (Nat.eqb n m); destruct n, m; reflexivity.
    - destruct n as [|n], m as [|m]; simpl; try reflexivity. apply IH.
  Qed.

  Lemma upd_length (l : list L) n x : List.length (upd l n x) = List.length l.
  Proof. revert n; induction l as [|a r IH]; intros [|n]; simpl; auto. Qed.

  (* under every schedule, component i has made as many of its own steps as the schedule
     names it, and nothing else has touched it *)
  Lemma noninterference sched : forall e ls e' ls',
    run gstep (e, ls) sched = Some (e', ls') ->
    e' = e /\ List.length ls' = List.length ls /\
    forall i l, nth_error ls i = Some l ->
      exists l', nth_error ls' i = Some l' /\ iter i (count_occ Nat.eq_dec sched i) l = Some l'.
  Proof.
    induction sched as [|t rest IH]; intros e ls e' ls' H.
    - simpl in H. injection H as <- <-. repeat split; auto. intros i l Hl. exists l. auto.
    - simpl in H. unfold gstep in H at 1. simpl in H.
      destruct (nth_error ls t) as [l0|] eqn:E0; [|discriminate].
      destruct (lstep t l0) as [l1|] eqn:E1; [|discriminate].
      apply IH in H. destruct H as (He & Hlen & H). split; [exact He|]. split.
      + rewrite Hlen. apply upd_length.
      + intros i l Hl. specialize (H i).
        rewrite nth_error_upd in H. simpl.
        destruct (Nat.eq_dec t i) as [->|Hne].
        * rewrite Nat.eqb_refl, E0 in H. rewrite Hl in E0. injection E0 as ->.
          destruct (H l1 eq_refl) as (l' & H1 & H2). exists l'. split; [exact H1|].
          simpl. rewrite E1. exact H2.
        * rewrite (proj2 (Nat.eqb_neq t i) Hne) in H.
          apply H. exact Hl.
  Qed.
End NonInterference.

(* ------------------------------------------------------------------------------------ *)
(* The sink model without shared closure variables is such a system.                      *)

Section Sink.
  Variables (payload err0 : Type).
  Variable pid : payload -> nat.
  Variable body : payload -> option err0.

  Notation thread := (thread payload err0).
  Notation cells := (cells payload err0).
  Notation state := (state payload err0).
  Notation tstep := (tstep payload err0 pid body).
  Notation step := (step payload err0 pid body).
  Notation init := (init payload err0).
  Notation init_with := (init_with payload err0).
  Notation init_thread := (init_thread payload err0).

  (* an invocation alone (its frame only; the environment is never looked at) *)
  Definition lstep (t : nat) (th : thread) : option thread :=
    option_map snd (tstep no_sharing t (no_cells payload err0) th).

  Lemma tstep_local (sh : sharing) :
    (forall v, sh v = false) ->
    forall t env th, tstep sh t env th = option_map (fun th' => (env, th')) (lstep t th).
  Proof.
    intros Hsh t env th. unfold lstep, SinkInv.tstep.
    unfold rd_err, rd_scope, rd_is, wr_err, wr_scope, wr_is, advance, halt, no_sharing.
    rewrite !Hsh. simpl.
    destruct (t_st th); [|reflexivity|reflexivity].
    destruct (t_pc th); simpl; try reflexivity.
    - destruct (c_err (t_loc th)); reflexivity.
    - destruct (c_scope (t_loc th)) as [sc|]; [|reflexivity].
      destruct (Nat.eqb (sc_lock sc) tree_lock); reflexivity.
    - destruct (c_scope (t_loc th)) as [sc|]; reflexivity.
    - destruct (c_scope (t_loc th)) as [sc|]; reflexivity.
    - destruct (c_err (t_loc th)); reflexivity.
    - destruct (c_err (t_loc th)); [|reflexivity].
      destruct (c_scope (t_loc th)) as [sc|]; reflexivity.
  Qed.

  Lemma step_is_gstep (sh : sharing) :
    (forall v, sh v = false) ->
    forall s t,
      option_map (fun s' => (g_env s', g_threads s')) (step sh s t) =
      gstep cells thread lstep (g_env s, g_threads s) t.
  Proof.
    intros Hsh s t. unfold SinkInv.step, gstep. simpl.
    destruct (nth_error (g_threads s) t) as [th|]; [|reflexivity].
    rewrite (tstep_local sh Hsh). destruct (lstep t th); reflexivity.
  Qed.

  Lemma run_is_grun (sh : sharing) :
    (forall v, sh v = false) ->
    forall sched s,
      option_map (fun s' => (g_env s', g_threads s')) (run (step sh) s sched) =
      run (gstep cells thread lstep) (g_env s, g_threads s) sched.
  Proof.
    intros Hsh sched; induction sched as [|t rest IH]; intros s; simpl; [reflexivity|].
    pose proof (step_is_gstep sh Hsh s t) as H.
    destruct (step sh s t) as [s1|]; simpl in H; rewrite <- H; [apply IH | reflexivity].
  Qed.

  (* what invocation i hands to the engine when it runs alone on event ev *)
  Definition expected (i : nat) (ev : payload) : option (rerr err0) :=
    option_map (fun b => mkRerr b (Some i)) (body ev).

  (* the observation of a returned invocation: result, echoed values, monitor *)
  Definition obs : Type :=
    (option (option (rerr err0)) * option (option nat * nat * option nat) * option nat)%type.
  Definition obs_of (th : thread) : obs := (t_ret th, t_echo th, t_mon th).
  Definition produced (i : nat) (ev : payload) : obs :=
    (Some (expected i ev), Some (Some (pid ev), pid ev, Some (pid ev)), Some i).

  (* facts about every state an invocation can be in when it runs alone *)
  Definition good (i : nat) (ev : payload) (th : thread) : Prop :=
    t_st th = Running /\
    t_ev th = ev /\
    (t_pc th = PDone -> obs_of th = produced i ev) /\
    (t_pc th <> PDone -> lstep i th <> None) /\
    (t_pc th = PReparent ->
       exists sc, c_scope (t_loc th) = Some sc /\ sc_lock sc = S i /\ sc_owner sc = i).

  Lemma solo i ev k th :
    iter thread lstep i k (init_thread ev) = Some th -> good i ev th /\ k <= 8.
  Proof.
    unfold good, obs_of, produced, expected.
    destruct (body ev) as [b|] eqn:B;
      do 9 (destruct k as [|k];
            [ cbn; try rewrite B; cbn; intros [= <-]; cbn; try rewrite B; cbn;
              repeat split; try congruence; try lia; try (intros _; eexists; repeat split; reflexivity)
            | ]);
      cbn; try rewrite B; cbn; discriminate.
  Qed.

  Lemma init_threads_nth evs i ev :
    nth_error evs i = Some ev -> nth_error (map init_thread evs) i = Some (init_thread ev).
  Proof. intros H. rewrite nth_error_map, H. reflexivity. Qed.

  (* every state reachable under any schedule, any number of invocations *)
  Lemma reach (sh : sharing) :
    (forall v, sh v = false) ->
    forall o evs sched s',
      run (step sh) (init_with o evs) sched = Some s' ->
      List.length (g_threads s') = List.length evs /\
      forall i ev, nth_error evs i = Some ev ->
        exists th, nth_error (g_threads s') i = Some th /\ good i ev th /\
                   count_occ Nat.eq_dec sched i <= 8.
  Proof.
    intros Hsh o evs sched s' Hrun.
    pose proof (run_is_grun sh Hsh sched (init_with o evs)) as H. rewrite Hrun in H. simpl in H.
    symmetry in H. apply noninterference in H. destruct H as (_ & Hlen & H).
    split; [rewrite Hlen; apply map_length|].
    intros i ev Hev. destruct (H i _ (init_threads_nth evs i ev Hev)) as (th & H1 & H2).
    exists th. split; [exact H1|]. apply solo in H2. exact H2.
  Qed.

  Lemma all_done_nth (s : state) i th :
    all_done s = true -> nth_error (g_threads s) i = Some th -> t_pc th = PDone.
  Proof.
    unfold all_done. rewrite forallb_forall. intros H Hn. apply nth_error_In in Hn.
    specialize (H _ Hn). unfold is_done in H. destruct (t_pc th); congruence.
  Qed.

  (* C11, main statement: no shared closure variable => under EVERY schedule of any number
     of invocations, nothing faults, nobody blocks, every invocation that has not returned
     can make a step, none makes more than 8, and every returned invocation observed exactly
     what its own event dictates. *)
  Theorem isolation (sh : sharing) :
    (forall v, sh v = false) ->
    forall o evs sched s',
      run (step sh) (init_with o evs) sched = Some s' ->
      List.length (g_threads s') = List.length evs /\
      forall i ev, nth_error evs i = Some ev ->
        exists th, nth_error (g_threads s') i = Some th /\
          t_st th = Running /\
          (t_pc th = PDone -> obs_of th = produced i ev) /\
          (t_pc th <> PDone -> step sh s' i <> None) /\
          count_occ Nat.eq_dec sched i <= 8.
  Proof.
    intros Hsh o evs sched s' Hrun.
    destruct (reach sh Hsh o evs sched s' Hrun) as (Hlen & H). split; [exact Hlen|].
    intros i ev Hev. destruct (H i ev Hev) as (th & Hn & (Hst & _ & Hdone & Hprog & _) & Hcnt).
    exists th. repeat split; auto.
    intros Hpc. unfold SinkInv.step. rewrite Hn, (tstep_local sh Hsh).
    specialize (Hprog Hpc). destruct (lstep i th); [discriminate | congruence].
  Qed.

  (* ... in the words of the Spec: once all have returned, the per-invocation observations
     are Isolated. *)
  Theorem isolation_spec (sh : sharing) :
    (forall v, sh v = false) ->
    forall o evs sched s',
      run (step sh) (init_with o evs) sched = Some s' -> all_done s' = true ->
      Isolated payload obs produced evs (map obs_of (g_threads s')).
  Proof.
    intros Hsh o evs sched s' Hrun Hdone.
    destruct (isolation sh Hsh o evs sched s' Hrun) as (Hlen & H). split.
    - rewrite map_length. exact Hlen.
    - intros i ev Hev. destruct (H i ev Hev) as (th & Hn & _ & Hd & _).
      rewrite nth_error_map, Hn. simpl. f_equal. apply Hd. eapply all_done_nth; eauto.
  Qed.

  (* the error report alone: exactly the error each event dictates, attached to that
     invocation's own scope — none lost, none duplicated, none moved to another event *)
  Theorem errors_exact (sh : sharing) :
    (forall v, sh v = false) ->
    forall o evs sched s',
      run (step sh) (init_with o evs) sched = Some s' -> all_done s' = true ->
      Isolated payload (option (rerr err0)) expected evs (results s').
  Proof.
    intros Hsh o evs sched s' Hrun Hdone.
    destruct (isolation sh Hsh o evs sched s' Hrun) as (Hlen & H). split.
    - unfold results. rewrite map_length. exact Hlen.
    - intros i ev Hev. destruct (H i ev Hev) as (th & Hn & _ & Hd & _).
      unfold results. rewrite nth_error_map, Hn. simpl. f_equal.
      specialize (Hd (all_done_nth _ _ _ Hdone Hn)). unfold obs_of, produced in Hd.
      injection Hd as -> _ _. reflexivity.
  Qed.

  (* SetParentOfScope in the action: the scope handed to it is the invocation's fresh one,
     whose RWMutex is its own (different from the tree's and from every other invocation's),
     so the two Lock calls are on two different mutexes *)
  Theorem reparent_locks_distinct (sh : sharing) :
    (forall v, sh v = false) ->
    forall o evs sched s',
      run (step sh) (init_with o evs) sched = Some s' ->
      forall i th, nth_error (g_threads s') i = Some th -> t_pc th = PReparent ->
        exists sc, c_scope (t_loc th) = Some sc /\ sc_owner sc = i /\
                   sc_lock sc = S i /\ NoDup [sc_lock sc; tree_lock].
  Proof.
    intros Hsh o evs sched s' Hrun i th Hn Hpc.
    destruct (reach sh Hsh o evs sched s' Hrun) as (Hlen & H).
    assert (i < List.length evs) as Hi.
    { rewrite <- Hlen. apply nth_error_Some. congruence. }
    destruct (nth_error evs i) as [ev|] eqn:Hev; [|apply nth_error_None in Hev; lia].
    destruct (H i ev Hev) as (th' & Hn' & (_ & _ & _ & _ & Hre) & _).
    rewrite Hn in Hn'. injection Hn' as <-.
    destruct (Hre Hpc) as (sc & Hsc & Hl & Ho). exists sc. repeat split; auto.
    rewrite Hl. unfold tree_lock. constructor; [simpl; intros [H0|[]]; discriminate|].
    constructor; [intros []|constructor].
  Qed.

  (* the declaring scope's own variable `event` is never touched — under any sharing, from
     any state, by any schedule *)
  Theorem outer_untouched (sh : sharing) sched : forall (s s' : state),
    run (step sh) s sched = Some s' -> g_outer s' = g_outer s.
  Proof.
    induction sched as [|t rest IH]; intros s s'; simpl.
    - intros [= <-]. reflexivity.
    - destruct (step sh s t) as [s1|] eqn:E; [|discriminate]. intros H.
      rewrite (IH _ _ H). unfold SinkInv.step in E.
      destruct (nth_error (g_threads s) t) as [th|]; [|discriminate].
      destruct (tstep sh t (g_env s) th) as [[env' th']|]; [|discriminate].
      injection E as <-. reflexivity.
  Qed.
End Sink.

Lemma sharing_of_nil v : sharing_of [] v = false.
Proof. reflexivity. Qed.
