(* Proofs/DebugCmdProofs.v — lemmas for C16: an invariant of all reachable debugger states,
   preserved by every thread event and every command line, under which no command reaches a
   panic site or waits for the lock, and every result is JSON-encodable. *)
From Coq Require Import List String ZArith NArith Bool Lia.
From Ecal Require Import Model.DebugCmd Spec.DebugCmdSpec.
Import ListNotations.

(* ------------------------------------------------------------------ induction on Go values *)

Section gval_ind2.
  Variable P : gval -> Prop.
  Hypotheses (HNull : P GNull) (HBool : forall b, P (GBool b)) (HNum : P GNum) (HStr : P GStr)
    (HList : forall l, Forall P l -> P (GList l))
    (HMapS : forall l, Forall P l -> P (GMapS l))
    (HMapI : forall m, Forall (fun kv => P (fst kv) /\ P (snd kv)) m -> P (GMapI m))
    (HObj : forall e, P (GObj e)).

  Fixpoint gval_ind2 (v : gval) : P v :=
    match v with
    | GNull => HNull
    | GBool b => HBool b
    | GNum => HNum
    | GStr => HStr
    | GList l => HList l ((fix go (l : list gval) : Forall P l :=
                             match l with
                             | [] => Forall_nil _
                             | x :: r => Forall_cons x (gval_ind2 x) (go r)
                             end) l)
    | GMapS l => HMapS l ((fix go (l : list gval) : Forall P l :=
                             match l with
                             | [] => Forall_nil _
                             | x :: r => Forall_cons x (gval_ind2 x) (go r)
                             end) l)
    | GMapI m => HMapI m ((fix go (m : list (gval * gval)) : Forall (fun kv => P (fst kv) /\ P (snd kv)) m :=
                             match m with
                             | [] => Forall_nil _
                             | (k, x) :: r => Forall_cons (k, x) (conj (gval_ind2 k) (gval_ind2 x)) (go r)
                             end) m)
    | GObj e => HObj e
    end.
End gval_ind2.

Lemma forallb_map {A B} (p : B -> bool) (f : A -> B) (l : list A) :
  (forall x, In x l -> p (f x) = true) -> forallb p (map f l) = true.
Proof.
  induction l as [|a l IH]; intros H; simpl; [reflexivity|].
  rewrite (H a (or_introl eq_refl)), IH; [reflexivity|].
  intros x Hx; apply H; right; exact Hx.
Qed.

(* ECAL values become encodable by ConvertToJSONMarshalableObject *)
Lemma ecal_value_marshalable : forall v, ecal_value v = true -> encodable (to_marshalable v) = true.
Proof.
  induction v as [| b | | | l IH | l IH | m IH | e] using gval_ind2; simpl; intros H; try reflexivity; try discriminate.
  - apply forallb_map. intros x Hx.
    rewrite Forall_forall in IH. apply IH; [exact Hx|].
    rewrite forallb_forall in H. apply H; exact Hx.
  - apply forallb_map. intros [k x] Hx.
    rewrite Forall_forall in IH. apply (IH (k, x) Hx).
    rewrite forallb_forall in H. specialize (H (k, x) Hx). simpl in H.
    apply andb_true_iff in H. apply H.
  - exact H.
Qed.

Lemma scope_json_encodable : forall v, encodable (scope_json v) = true.
Proof.
  intros v. unfold scope_json.
  destruct (encodable v) eqn:E1; [exact E1|].
  destruct (encodable (to_marshalable v)) eqn:E2; [exact E2|reflexivity].
Qed.

(* ------------------------------------------------------------------ the invariant *)

Definition err_ok (e : option gval) : bool :=
  match e with Some d => ecal_value d | None => true end.

Definition is_ok (i : istate) : bool := i_node i && err_ok (i_err i) && Nat.eqb (i_cond i) 0.

Lemma is_ok_parts i : is_ok i = true -> i_node i = true /\ err_ok (i_err i) = true /\ i_cond i = 0.
Proof.
  unfold is_ok. intros H. apply andb_true_iff in H. destruct H as [H Hc].
  apply andb_true_iff in H. destruct H as [Hn He]. apply Nat.eqb_eq in Hc. auto.
Qed.

Lemma is_ok_intro n e c : n = true -> err_ok e = true -> c = 0 ->
  forall r cm so vs, is_ok (mkIS r cm so n vs e c) = true.
Proof. intros -> He -> r cm so vs. unfold is_ok. simpl. rewrite He. reflexivity. Qed.

Definition thread_ok (t : thread) : bool :=
  forallb (forallb encodable) (t_stack t) &&
  match t_is t with Some i => is_ok i | None => true end.

Definition threads_ok (s : dstate) : Prop := forallb thread_ok (d_threads s) = true.

(* between two calls: nobody holds the debugger lock; every interrogation state has its node,
   error data are ECAL values, stack snapshots are JSON values *)
Definition Inv (s : dstate) : Prop := d_lock s = 0 /\ threads_ok s.
(* inside a method that holds the lock *)
Definition Inv1 (s : dstate) : Prop := d_lock s = 1 /\ threads_ok s.

Definition good (r : res) : Prop := (exists j, r = ROk j /\ encodable j = true) \/ r = RErr.

Lemma good_null : good (ROk GNull).
Proof. left; exists GNull; split; reflexivity. Qed.
Lemma good_err : good RErr.
Proof. right; reflexivity. Qed.
#[local] Hint Resolve good_null good_err : core.

Lemma with_lock_inv (s : dstate) (body : dstate -> dstate * res) :
  Inv s ->
  (forall s1, Inv1 s1 -> d_threads s1 = d_threads s ->
              Inv1 (fst (body s1)) /\ good (snd (body s1))) ->
  Inv (fst (with_lock s body)) /\ good (snd (with_lock s body)).
Proof.
  intros [Hl Ht] Hb. unfold with_lock. rewrite Hl.
  specialize (Hb (set_lock s 1)).
  destruct (body (set_lock s 1)) as [s' r]. simpl in *.
  destruct Hb as [[Hl' Ht'] Hg]; [split; [reflexivity|exact Ht]|reflexivity|].
  split; [|exact Hg]. split; simpl; [rewrite Hl'; reflexivity|exact Ht'].
Qed.

Lemma upd_thread_ok (tid : N) (f : thread -> thread) (ts : list thread) :
  (forall t, In t ts -> thread_ok t = true -> thread_ok (f t) = true) ->
  forallb thread_ok ts = true -> forallb thread_ok (upd_thread tid f ts) = true.
Proof.
  intros Hf H. unfold upd_thread. apply forallb_map. intros t Ht.
  rewrite forallb_forall in H.
  destruct (N.eqb (t_id t) tid); [apply Hf; [exact Ht|]|]; apply H; exact Ht.
Qed.

Lemma find_thread_ok (s : dstate) (tid : N) (t : thread) :
  threads_ok s -> find_thread s tid = Some t -> thread_ok t = true.
Proof.
  unfold threads_ok, find_thread. intros H Hf. apply find_some in Hf.
  rewrite forallb_forall in H. apply H. apply Hf.
Qed.

Lemma err_json_encodable (e : option gval) : err_ok e = true -> encodable (err_json e) = true.
Proof.
  destruct e as [d|]; simpl; intros H; [|reflexivity].
  rewrite (ecal_value_marshalable d H). reflexivity.
Qed.

Lemma const_list_encodable {A} (g : gval) (l : list A) :
  encodable g = true -> forallb encodable (map (fun _ => g) l) = true.
Proof. intros H. apply forallb_map. intros; exact H. Qed.

Lemma frames_encodable (st : list (list gval)) :
  forallb (forallb encodable) st = true -> forallb encodable (map frame_json st) = true.
Proof.
  intros H. apply forallb_map. intros f Hf. rewrite forallb_forall in H. apply (H f Hf).
Qed.

Lemma scope_list_encodable (l : list gval) : forallb encodable (map scope_json l) = true.
Proof. apply forallb_map. intros; apply scope_json_encodable. Qed.

(* ------------------------------------------------------------------ the debugger methods *)

Ltac split_inv1 := split; [split; [assumption|]|].

Lemma SetBreakPoint_inv s src line a :
  Inv s -> Inv (fst (SetBreakPoint s src line a)) /\ good (snd (SetBreakPoint s src line a)).
Proof.
  intros H. apply with_lock_inv; [exact H|]. intros s1 [Hl Ht] _. simpl.
  split; [split; assumption|auto].
Qed.

Lemma RemoveBreakPoint_inv s src line :
  Inv s -> Inv (fst (RemoveBreakPoint s src line)) /\ good (snd (RemoveBreakPoint s src line)).
Proof.
  intros H. apply with_lock_inv; [exact H|]. intros s1 [Hl Ht] _.
  destruct (0 <? line)%Z; simpl; (split; [split; assumption|auto]).
Qed.

Lemma set_is_ok (t : thread) (i : istate) :
  thread_ok t = true -> is_ok i = true -> thread_ok (set_is t (Some i)) = true.
Proof.
  unfold thread_ok. simpl. intros H Hi. apply andb_true_iff in H. destruct H as [H _].
  rewrite H, Hi. reflexivity.
Qed.

Lemma Continue_inv s tid ct :
  Inv s -> Inv (fst (Continue s tid ct)) /\ good (snd (Continue s tid ct)).
Proof.
  intros H. apply with_lock_inv; [exact H|]. intros s1 [Hl Ht] _.
  destruct (find_thread s1 tid) as [t|] eqn:Ef; [|split; [split; assumption|auto]].
  pose proof (find_thread_ok _ _ _ Ht Ef) as Hto.
  destruct (t_is t) as [i|] eqn:Ei; [|split; [split; assumption|auto]].
  destruct (i_running i) eqn:Er; [split; [split; assumption|auto]|].
  assert (Hi : is_ok i = true).
  { unfold thread_ok in Hto. rewrite Ei in Hto. apply andb_true_iff in Hto. apply Hto. }
  destruct (is_ok_parts _ Hi) as [Hn [He Hc]]. rewrite Hc.
  assert (Hgo : forall c so,
    Inv1 (set_threads s1 (upd_thread tid
            (fun t' => set_is t' (Some (mkIS true c so (i_node i) (i_vs i) (i_err i) (pred 1)))) (d_threads s1)))).
  { intros c so. split; [exact Hl|]. unfold threads_ok. simpl.
    apply upd_thread_ok; [|exact Ht]. intros t' _ Hok. apply set_is_ok; [exact Hok|].
    apply is_ok_intro; auto. }
  destruct ct; simpl; try (split; [apply Hgo|auto]).
  destruct (t_stack t) as [|f rest] eqn:Es; simpl; (split; [apply Hgo|auto]).
Qed.

Lemma Describe_inv s tid :
  Inv s -> Inv (fst (Describe s tid)) /\ good (snd (Describe s tid)).
Proof.
  intros H. apply with_lock_inv; [exact H|]. intros s1 [Hl Ht] _.
  destruct (find_thread s1 tid) as [t|] eqn:Ef; [|split; [split; assumption|auto]].
  pose proof (find_thread_ok _ _ _ Ht Ef) as Hto.
  destruct (t_is t) as [i|] eqn:Ei; [|split; [split; assumption|auto]].
  unfold thread_ok in Hto. rewrite Ei in Hto. apply andb_true_iff in Hto. destruct Hto as [Hst Hi].
  destruct (is_ok_parts _ Hi) as [Hn [He _]].
  assert (Hbase : forallb encodable
            [GBool (i_running i); err_json (i_err i); GList (map (fun _ => GStr) (t_stack t));
             GList (map (fun _ => GObj true) (t_stack t)); GList (map frame_json (t_stack t));
             GList (map frame_json (t_stack t))] = true).
  { cbn [forallb]. rewrite (err_json_encodable _ He). cbn [encodable].
    rewrite !const_list_encodable by reflexivity. rewrite !frames_encodable by exact Hst. reflexivity. }
  destruct (i_running i) eqn:Er.
  - split; [split; assumption|]. left. eexists; split; [reflexivity|]. cbn [encodable]. exact Hbase.
  - rewrite Hn. split; [split; assumption|]. left. eexists; split; [reflexivity|].
    cbn [encodable]. rewrite forallb_app, Hbase. cbn [forallb encodable andb].
    rewrite !scope_list_encodable. reflexivity.
Qed.

Lemma thread_status_encodable t : thread_ok t = true -> encodable (thread_status t) = true.
Proof.
  unfold thread_ok, thread_status. intros H. apply andb_true_iff in H. destruct H as [_ H].
  destruct (t_is t) as [i|]; cbn [encodable forallb].
  - destruct (is_ok_parts _ H) as [_ [He _]].
    rewrite (err_json_encodable _ He), const_list_encodable by reflexivity. reflexivity.
  - rewrite const_list_encodable by reflexivity. reflexivity.
Qed.

Lemma Status_inv s :
  Inv s -> Inv (fst (Status s)) /\ exists j, snd (Status s) = ROk j /\ encodable j = true.
Proof.
  intros [Hl Ht]. unfold Status, with_lock. rewrite Hl. simpl.
  split; [split; [reflexivity|exact Ht]|].
  eexists; split; [reflexivity|]. cbn [encodable forallb].
  rewrite (forallb_map encodable (fun e => GBool (snd e))) by (intros; reflexivity).
  rewrite (forallb_map encodable thread_status).
  - rewrite const_list_encodable by reflexivity. reflexivity.
  - intros t Hin. apply thread_status_encodable. unfold threads_ok in Ht.
    rewrite forallb_forall in Ht. apply Ht; exact Hin.
Qed.

Lemma LockState_inv s :
  Inv s -> Inv (fst (LockState s)) /\ good (snd (LockState s)).
Proof.
  intros H. unfold LockState. simpl. split; [exact H|]. left. eexists; split; [reflexivity|].
  destruct (d_refs s); reflexivity.
Qed.

Lemma ExtractValue_inv s o tid :
  Inv s -> Inv (fst (ExtractValue s o tid)) /\ good (snd (ExtractValue s o tid)).
Proof.
  intros H. unfold ExtractValue. destruct (negb (d_global s)); [split; [exact H|auto]|].
  apply with_lock_inv; [exact H|]. intros s1 Hi _.
  destruct (suspended s1 tid); [destruct (o_get o)|]; (split; [exact Hi|auto]).
Qed.

Lemma InjectValue_inv s o tid :
  Inv s -> Inv (fst (InjectValue s o tid)) /\ good (snd (InjectValue s o tid)).
Proof.
  intros H. unfold InjectValue. destruct (negb (d_global s)); [split; [exact H|auto]|].
  apply with_lock_inv; [exact H|]. intros s1 [Hl Ht] _.
  destruct (suspended s1 tid) as [[t i]|] eqn:Es; [|split; [split; assumption|auto]].
  destruct (o_eval o) as [v|]; [|split; [split; assumption|auto]].
  destruct (o_set o); [|split; [split; assumption|auto]].
  unfold suspended in Es.
  destruct (find_thread s1 tid) as [t0|] eqn:Ef; [|discriminate].
  destruct (t_is t0) as [i0|] eqn:Ei; [|discriminate].
  destruct (i_running i0); [discriminate|]. inversion Es; subst t0 i0.
  pose proof (find_thread_ok _ _ _ Ht Ef) as Hto.
  assert (Hi : is_ok i = true).
  { unfold thread_ok in Hto. rewrite Ei in Hto. apply andb_true_iff in Hto. apply Hto. }
  split; [|auto]. split; [exact Hl|]. unfold threads_ok. simpl.
  apply upd_thread_ok; [|exact Ht]. intros t' _ Hok. apply set_is_ok; [exact Hok|].
  destruct (is_ok_parts _ Hi) as [Hn [He Hc]]. apply is_ok_intro; auto.
Qed.

(* ------------------------------------------------------------------ commands and lines *)

Lemma run_cmd_inv c s o args :
  Inv s -> Inv (fst (run_cmd c s o args)) /\ good (snd (run_cmd c s o args)).
Proof.
  intros H. destruct c; simpl.
  - (* breakonstart *) apply with_lock_inv; [exact H|]. intros s1 [Hl Ht] _. simpl.
    split; [split; assumption|auto].
  - (* break *) destruct args as [|a ?]; [split; [exact H|auto]|].
    destruct (k_target a); try (split; [exact H|auto]). apply SetBreakPoint_inv; exact H.
  - (* rmbreak *) destruct args as [|a ?]; [split; [exact H|auto]|].
    destruct (k_target a); try (split; [exact H|auto]); apply RemoveBreakPoint_inv; exact H.
  - (* disablebreak *) destruct args as [|a ?]; [split; [exact H|auto]|].
    destruct (k_target a); try (split; [exact H|auto]). apply SetBreakPoint_inv; exact H.
  - (* cont *) destruct args as [|a [|b [|? ?]]]; try (split; [exact H|auto]).
    destruct (k_num a); [|split; [exact H|auto]].
    destruct (k_cont b); [|split; [exact H|auto]]. apply Continue_inv; exact H.
  - (* describe *) destruct args as [|a [|? ?]]; try (split; [exact H|auto]).
    destruct (k_num a); [|split; [exact H|auto]]. apply Describe_inv; exact H.
  - (* status *) destruct (Status_inv s H) as [Hi [j [Hj He]]]. split; [exact Hi|].
    left; exists j; split; assumption.
  - (* extract *) destruct args as [|a [|b [|c [|? ?]]]]; try (split; [exact H|auto]).
    destruct (k_num a); [|split; [exact H|auto]].
    destruct (k_name b && k_name c); [|split; [exact H|auto]]. apply ExtractValue_inv; exact H.
  - (* inject *) destruct args as [|a [|b [|c ?]]]; try (split; [exact H|auto]).
    destruct (k_num a); [|split; [exact H|auto]]. apply InjectValue_inv; exact H.
  - (* lockstate *) apply LockState_inv; exact H.
Qed.

Lemma handle_inv s o line :
  Inv s -> Inv (fst (handle s o line)) /\ good (snd (handle s o line)).
Proof.
  intros H. unfold handle. destruct line as [|w args]; [split; [exact H|auto]|].
  destruct (k_cmd w); [apply run_cmd_inv; exact H|split; [exact H|auto]].
Qed.

(* ------------------------------------------------------------------ thread events *)

Lemma thread_ok_stack t st i :
  forallb (forallb encodable) st = true ->
  match i with Some x => is_ok x | None => true end = true ->
  thread_ok (mkT (t_id t) st i) = true.
Proof. intros H1 H2. unfold thread_ok. simpl. rewrite H1, H2. reflexivity. Qed.

Lemma step_inv s e : valid_event e = true -> Inv s -> Inv (step s e).
Proof.
  intros Hv [Hl Ht]. destruct e; simpl.
  - destruct (find_thread s tid); [split; assumption|]. split; [exact Hl|].
    unfold threads_ok in *. simpl. rewrite Ht. reflexivity.
  - split; assumption.
  - split; assumption.
  - split; [exact Hl|]. unfold threads_ok in *. simpl. apply upd_thread_ok; [|exact Ht].
    intros t _ Hok. destruct (can_move t); [|exact Hok].
    destruct (t_is t) as [i|] eqn:Ei.
    + apply set_is_ok; [exact Hok|]. unfold thread_ok in Hok. rewrite Ei in Hok.
      apply andb_true_iff in Hok. destruct Hok as [_ Hi].
      destruct (is_ok_parts _ Hi) as [_ [He Hc]]. apply is_ok_intro; auto.
    + apply set_is_ok; [exact Hok|reflexivity].
  - simpl in Hv. split; [exact Hl|]. unfold threads_ok in *. simpl. apply upd_thread_ok; [|exact Ht].
    intros t _ Hok. destruct (can_move t); [|exact Hok].
    destruct (t_is t) as [i|] eqn:Ei.
    + apply set_is_ok; [exact Hok|]. unfold thread_ok in Hok. rewrite Ei in Hok.
      apply andb_true_iff in Hok. destruct Hok as [_ Hi].
      destruct (is_ok_parts _ Hi) as [_ [He Hc]]. apply is_ok_intro; auto.
      destruct (i_err i); simpl in *; [exact He|exact Hv].
    + apply set_is_ok; [exact Hok|]. apply is_ok_intro; auto.
  - split; [exact Hl|]. unfold threads_ok in *. simpl. apply upd_thread_ok; [|exact Ht].
    intros t _ Hok. destruct (can_move t); [|exact Hok].
    unfold thread_ok in Hok. apply andb_true_iff in Hok. destruct Hok as [Hs Hi].
    apply thread_ok_stack.
    + simpl. rewrite scope_list_encodable, Hs. reflexivity.
    + destruct (t_is t) as [i|]; [|reflexivity].
      destruct (is_ok_parts _ Hi) as [Hn [He Hc]].
      destruct (i_cmd i); try exact Hi; apply is_ok_intro; auto.
  - split; [exact Hl|]. unfold threads_ok in *. simpl. apply upd_thread_ok; [|exact Ht].
    intros t _ Hok. destruct (can_move t); [|exact Hok].
    destruct (t_stack t) as [|f rest] eqn:Es; [exact Hok|].
    unfold thread_ok in Hok. rewrite Es in Hok. apply andb_true_iff in Hok. destruct Hok as [Hs Hi].
    simpl in Hs. apply andb_true_iff in Hs. destruct Hs as [_ Hs].
    apply thread_ok_stack; [exact Hs|].
    destruct (t_is t) as [i|]; [|reflexivity].
    destruct (is_ok_parts _ Hi) as [Hn [_ Hc]]. apply is_ok_intro; auto.
  - split; [exact Hl|]. unfold threads_ok in *. simpl. apply upd_thread_ok; [|exact Ht].
    intros t _ Hok. destruct (t_is t) as [i|] eqn:Ei; [|exact Hok].
    destruct (i_running i); [|exact Hok].
    assert (Hn : thread_ok (set_is t None) = true).
    { unfold thread_ok in *. simpl. apply andb_true_iff in Hok. destruct Hok as [Hs _].
      rewrite Hs. reflexivity. }
    destruct (i_cmd i); try exact Hok; exact Hn.
  - split; [exact Hl|]. unfold threads_ok in *. simpl.
    rewrite forallb_forall in *. intros t Hin. apply filter_In in Hin. apply Ht. apply Hin.
  - apply handle_inv. split; assumption.
Qed.

Lemma init_inv g : Inv (init g).
Proof. split; reflexivity. Qed.

Lemma run_inv h : forall s, forallb valid_event h = true -> Inv s -> Inv (run s h).
Proof.
  induction h as [|e h IH]; intros s Hv Hi; [exact Hi|].
  simpl in Hv. apply andb_true_iff in Hv. destruct Hv as [He Hh].
  simpl. apply IH; [exact Hh|]. apply step_inv; assumption.
Qed.

(* ------------------------------------------------------------------ tie to the Spec *)

Definition reachable (s : dstate) : Prop :=
  exists (global : bool) (h : list event), forallb valid_event h = true /\ s = run (init global) h.

Definition to_answer (r : res) : answer gval :=
  match r with
  | ROk j => AResult j
  | RErr => AError
  | RPanic _ => APanic
  | RBlocked => AHang
  end.

Definition model_handler (s : dstate) (o : oracle) (line : list token) : dstate * answer gval :=
  (fst (handle s o line), to_answer (snd (handle s o line))).

Definition json_ok (v : gval) : Prop := encodable v = true.

Definition is_status (line : list token) : Prop :=
  exists w args, line = w :: args /\ k_cmd w = Some CStatus.

Lemma reachable_inv s : reachable s -> Inv s.
Proof. intros [g [h [Hv Hs]]]. subst s. apply run_inv; [exact Hv|apply init_inv]. Qed.

Lemma good_answers r : good r -> answers gval json_ok (to_answer r).
Proof.
  intros [[j [Hj He]]|Hj]; subst r; [left; exists j; split; [reflexivity|exact He]|right; reflexivity].
Qed.

Lemma inv_locks_zero s : Inv s -> locks_total s = 0.
Proof.
  intros [Hl Ht]. unfold locks_total. rewrite Hl. simpl.
  unfold threads_ok in Ht. induction (d_threads s) as [|t ts IH]; [reflexivity|].
  simpl in *. apply andb_true_iff in Ht. destruct Ht as [Hto Hts].
  rewrite (IH Hts). unfold thread_ok in Hto. apply andb_true_iff in Hto. destruct Hto as [_ Hi].
  unfold cond_held. destruct (t_is t) as [i|]; [|reflexivity].
  destruct (is_ok_parts _ Hi) as [_ [_ Hc]]. rewrite Hc. reflexivity.
Qed.

Lemma inv_total_at s :
  Inv s -> total_at dstate (list token) oracle gval model_handler locks_total json_ok is_status s.
Proof.
  intros H env line. unfold model_handler.
  destruct (handle_inv s env line H) as [Hi Hg].
  split; [apply good_answers; exact Hg|].
  split; [cbn [fst]; rewrite (inv_locks_zero _ Hi), (inv_locks_zero _ H); reflexivity|].
  split.
  - intros env' line'. simpl. apply good_answers. apply handle_inv. exact Hi.
  - intros env' line' [w [args [Hl' Hw]]]. subst line'. cbn [snd].
    assert (Hs : handle (fst (handle s env line)) env' (w :: args) = Status (fst (handle s env line))).
    { unfold handle at 1. rewrite Hw. reflexivity. }
    rewrite Hs. destruct (Status_inv _ Hi) as [_ [j [Hj _]]]. rewrite Hj. exists j. reflexivity.
Qed.

Lemma handle_total :
  total_interface dstate (list token) oracle gval model_handler locks_total json_ok is_status reachable.
Proof. intros s Hr. apply inv_total_at. apply reachable_inv. exact Hr. Qed.

Lemma reachable_closed s e : valid_event e = true -> reachable s -> reachable (step s e).
Proof.
  intros Hv [g [h [Hh Hs]]]. subst s. exists g, (h ++ [e])%list. split.
  - rewrite forallb_app, Hh. simpl. rewrite Hv. reflexivity.
  - unfold run. rewrite fold_left_app. reflexivity.
Qed.

Lemma result_json_encodable s o line s' j :
  reachable s -> handle s o line = (s', ROk j) -> encodable j = true.
Proof.
  intros Hr Hh. destruct (handle_inv s o line (reachable_inv s Hr)) as [_ Hg].
  rewrite Hh in Hg. simpl in Hg. destruct Hg as [[j' [Hj He]]|Hj]; [|discriminate].
  inversion Hj; subst; exact He.
Qed.

Lemma never_panics s o line :
  reachable s -> forall site, snd (handle s o line) <> RPanic site /\ snd (handle s o line) <> RBlocked.
Proof.
  intros Hr site. destruct (handle_inv s o line (reachable_inv s Hr)) as [_ Hg].
  destruct Hg as [[j [Hj _]]|Hj]; rewrite Hj; split; discriminate.
Qed.
