(* Proofs/InterpShape.v — the tree predicate the interpreter model (Model/Interp.v) actually needs.

   [ishape name cs]: what the runtime component of node kind [name] demands of the node's own
   children [cs] (number, and for if / identifier / function the kinds at certain positions) so
   that none of its tree-shape [invalid "..."] sites is reached.  It is WEAKER than
   Spec/ParseSpec.shape_ok (Proofs/InterpWf.v: wf t -> interp_shape t = true): the interpreter
   does not care about the kinds of most children, only about what it indexes.
   [interp_shape t]: every node of t has that shape.
   [tok t]: interp_shape and, at every node, the node's own Validate check answers VOk
   (= wf + validate t = VOk, Proofs/InterpWf.v); this is the precondition of the evaluation
   theorems (Proofs/InterpInv*.v). *)
From Coq Require Import List String NArith Bool Arith.
From Ecal Require Import Common.Bytes Common.Ast gen.Tokens Spec.ParseSpec Model.Interp.
Import ListNotations.
Local Open Scope string_scope.
Local Open Scope list_scope.
Local Open Scope nat_scope.

(* exactly two children: operands2, eval_assign, eval_mutex, bind_params (preset), "in" of a loop *)
Definition two_kinds : list string :=
  ["times"; "div"; "divint"; "modint"; ">="; ">"; "<="; "<"; "=="; "!="; "and"; "or"; "in"; "notin";
   "hasprefix"; "hassuffix"; "like"; ":="; "preset"; "mutex"].
(* at least one child: eval_let, eval_guard, build_kids (compaccess), except_kids (as),
   try_otherwise, eval_try (try itself and its finally) *)
Definition some_kinds : list string :=
  ["let"; "guard"; "compaccess"; "as"; "otherwise"; "finally"; "try"].

(* if_pairs: (guard, block) pairs, the first of each pair being a guard node *)
Fixpoint if_ok (cs : list node) : bool :=
  match cs with
  | [] => true
  | g :: _ :: r => String.eqb (n_name g) NodeGUARD && if_ok r
  | [_] => false
  end.

(* build_kids: nothing may follow a dotted identifier child *)
Fixpoint ident_ok (cs : list node) : bool :=
  match cs with
  | [] => true
  | c :: r =>
    (if String.eqb (n_name c) NodeCOMPACCESS then true
     else if String.eqb (n_name c) NodeIDENTIFIER then match r with [] => true | _ => false end
     else true) && ident_ok r
  end.

(* run_closure: parameters and body after the optional name *)
Definition func_ok (cs : list node) : bool :=
  match cs with
  | h :: _ => (if String.eqb (n_name h) NodeIDENTIFIER then 3 else 2) <=? length cs
  | [] => false
  end.

Definition ishape (name : string) (cs : list node) : bool :=
  if mem name two_kinds then length cs =? 2
  else if mem name ["plus"; "minus"] then (length cs =? 1) || (length cs =? 2)
  else if String.eqb name "not" then length cs =? 1
  else if mem name some_kinds then 1 <=? length cs
  else if String.eqb name "loop" then 2 <=? length cs
  else if String.eqb name "if" then if_ok cs
  else if String.eqb name "identifier" then ident_ok cs
  else if String.eqb name "function" then func_ok cs
  else true.

Fixpoint interp_shape (n : node) : bool :=
  match n with
  | Node name _ _ _ _ cs => ishape name cs && forallb interp_shape cs
  end.

Section V.
  Context {NO : NumOps}.

  Definition vnode_ok (n : node) : bool :=
    match validate_node n with VOk => true | _ => false end.

  Fixpoint tok (n : node) : bool :=
    match n with
    | Node name v i a l cs =>
      ishape name cs && vnode_ok (Node name v i a l cs) && forallb tok cs
    end.
End V.
