(* Proofs/InterpInv4.v — the invariant through one level of evaluation, part 1: what [tok]
   gives per node kind, operators, list and map literals, statements, if, guard
   (rules and invariant: Proofs/InterpInv.v; scope functions: Proofs/InterpInv2.v). *)
From Coq Require Import List String NArith ZArith Bool Arith Lia.
From Ecal Require Import Common.Bytes Common.Ast gen.Tokens Spec.ParseSpec Model.Interp Proofs.InterpShape
  Proofs.InterpInv Proofs.InterpInv2.
Import ListNotations.
Local Open Scope string_scope.
Local Open Scope list_scope.
Local Open Scope nat_scope.

Section I4.
  Context {NO : NumOps}.

  (* ---------------------------------------------------------------- what tok gives *)
  Definition toks (l : list node) : Prop := Forall (fun c => tok c = true) l.

  Lemma tok_inv n :
    tok n = true ->
    ishape (n_name n) (n_children n) = true /\ vnode_ok n = true /\ toks (n_children n).
  Proof.
    destruct n as [name v i a l cs]. cbn [tok n_name n_children]. intros H.
    apply andb_prop in H. destruct H as [H H3]. apply andb_prop in H. destruct H as [H1 H2].
    repeat split; auto. apply Forall_forall. rewrite forallb_forall in H3. exact H3.
  Qed.
  Lemma tok_kids n : tok n = true -> toks (n_children n).
  Proof. intros H. apply tok_inv in H. apply H. Qed.
  Lemma toks_nth l i c : toks l -> nth_error l i = Some c -> tok c = true.
  Proof. intros H E. exact (Forall_nth _ _ _ _ H E). Qed.

  Lemma ishape_two name cs : mem name two_kinds = true -> ishape name cs = true -> length cs = 2.
  Proof. unfold ishape. intros ->. apply Nat.eqb_eq. Qed.
  Lemma ishape_sign name cs :
    mem name two_kinds = false -> mem name ["plus"; "minus"] = true -> ishape name cs = true ->
    length cs = 1 \/ length cs = 2.
  Proof.
    unfold ishape. intros -> ->. intros H. apply orb_prop in H.
    destruct H as [H|H]; apply Nat.eqb_eq in H; auto.
  Qed.
  Lemma ishape_some name cs :
    mem name two_kinds = false -> mem name ["plus"; "minus"] = false -> String.eqb name "not" = false ->
    mem name some_kinds = true -> ishape name cs = true -> 1 <= length cs.
  Proof. unfold ishape. intros -> -> -> ->. apply Nat.leb_le. Qed.

  (* a node of a given kind: the shape of its children *)
  Lemma tok_two n : tok n = true -> mem (n_name n) two_kinds = true ->
    exists c1 c2, n_children n = [c1; c2] /\ tok c1 = true /\ tok c2 = true.
  Proof.
    intros H Hm. apply tok_inv in H. destruct H as (Hs & _ & Hk).
    apply ishape_two in Hs; [|exact Hm].
    destruct (n_children n) as [|c1 [|c2 [|? ?]]]; try discriminate.
    inversion Hk as [|? ? H1 Hk']; subst. inversion Hk' as [|? ? H2 _]; subst. eauto.
  Qed.
  Lemma tok_some n : tok n = true -> mem (n_name n) some_kinds = true ->
    mem (n_name n) two_kinds = false -> mem (n_name n) ["plus"; "minus"] = false ->
    String.eqb (n_name n) "not" = false ->
    exists c r, n_children n = c :: r /\ tok c = true /\ toks r.
  Proof.
    intros H Hm H1 H2 H3. apply tok_inv in H. destruct H as (Hs & _ & Hk).
    apply ishape_some in Hs; auto.
    destruct (n_children n) as [|c r]; [cbn in Hs; lia|].
    inversion Hk; subst. eauto.
  Qed.

  Lemma is_name_eq n k : is_name n k = true -> n_name n = k.
  Proof. unfold is_name. apply String.eqb_eq. Qed.
  (* the same with the kind given by is_name (the side conditions compute) *)
  Lemma tok_two_k n k : tok n = true -> is_name n k = true -> mem k two_kinds = true ->
    exists c1 c2, n_children n = [c1; c2] /\ tok c1 = true /\ tok c2 = true.
  Proof. intros H Hn Hm. apply is_name_eq in Hn. subst k. apply tok_two; assumption. Qed.
  Lemma tok_some_k n k : tok n = true -> is_name n k = true -> mem k some_kinds = true ->
    mem k two_kinds = false -> mem k ["plus"; "minus"] = false -> String.eqb k "not" = false ->
    exists c r, n_children n = c :: r /\ tok c = true /\ toks r.
  Proof. intros H Hn. apply is_name_eq in Hn. subst k. apply tok_some; assumption. Qed.
  Lemma tok_loop n : tok n = true -> n_name n = NodeLOOP ->
    exists h b r, n_children n = h :: b :: r /\ tok h = true /\ tok b = true.
  Proof.
    intros H Hn. apply tok_inv in H. destruct H as (Hs & _ & Hk). rewrite Hn in Hs.
    change (ishape NodeLOOP (n_children n)) with (2 <=? length (n_children n)) in Hs.
    apply Nat.leb_le in Hs. destruct (n_children n) as [|h [|b r]]; cbn in Hs; try lia.
    inversion Hk as [|? ? H1 Hk']; subst. inversion Hk' as [|? ? H2 _]; subst. eauto 8.
  Qed.
  Lemma tok_if n : tok n = true -> n_name n = NodeIF -> if_ok (n_children n) = true.
  Proof.
    intros H Hn. apply tok_inv in H. destruct H as (Hs & _ & Hk). rewrite Hn in Hs. exact Hs.
  Qed.
  Lemma tok_ident n : tok n = true -> n_name n = NodeIDENTIFIER -> ident_ok (n_children n) = true.
  Proof.
    intros H Hn. apply tok_inv in H. destruct H as (Hs & _ & Hk). rewrite Hn in Hs. exact Hs.
  Qed.
  Lemma tok_func n : tok n = true -> n_name n = NodeFUNC -> func_ok (n_children n) = true.
  Proof.
    intros H Hn. apply tok_inv in H. destruct H as (Hs & _ & Hk). rewrite Hn in Hs. exact Hs.
  Qed.
  Lemma tok_vnode n : tok n = true -> validate_node n = VOk.
  Proof.
    intros H. apply tok_inv in H. destruct H as (_ & Hv & _). unfold vnode_ok in Hv.
    destruct (validate_node n); try discriminate. reflexivity.
  Qed.

  Lemma go_iface_eq_cases a b : match go_iface_eq a b with RErr _ | RInvalid _ => False | _ => True end.
  Proof. destruct a, b; exact I. Qed.

  Section WithEv.
    Variable ev : evalT.
    Hypothesis Hev : forall p n s i st,
      tok n = true -> sc_ok st s -> is_ok st i -> T st (ev p n s i) Qval.

    (* ---- operators *)

    Lemma T_operands2 st p cs s i :
      toks cs -> length cs = 2 -> sc_ok st s -> is_ok st i -> T st (operands2 ev p cs s i) Qpair.
    Proof.
      intros Hc Hl Hs Hi. destruct cs as [|c1 [|c2 [|? ?]]]; try discriminate.
      inversion Hc as [|? ? H1 Hc']; subst. inversion Hc' as [|? ? H2 _]; subst.
      unfold operands2.
      tbind (apply Hev; assumption) as v1 Hv1.
      tbind (apply Hev; assumption) as v2 Hv2.
      apply T_ret. split; assumption.
    Qed.
    Lemma T_num_op st p cs s i op :
      toks cs -> length cs = 2 -> sc_ok st s -> is_ok st i ->
      (forall x y st', T st' (op x y) Qval) -> T st (num_op ev p cs s i op) Qval.
    Proof.
      intros Hc Hl Hs Hi Hop. unfold num_op.
      tbind (apply T_operands2; assumption) as pr HQ.
      destruct (fst pr); try (apply T_fail; exact I).
      destruct (snd pr); try (apply T_fail; exact I). apply Hop.
    Qed.
    Lemma T_num_val st p cs s i op :
      toks cs -> length cs = 1 -> sc_ok st s -> is_ok st i -> T st (num_val ev p cs s i op) Qval.
    Proof.
      intros Hc Hl Hs Hi. destruct cs as [|c1 [|? ?]]; try discriminate.
      inversion Hc as [|? ? H1 _]; subst. unfold num_val.
      tbind (apply Hev; assumption) as v1 Hv1.
      destruct v1; try (apply T_fail; exact I). apply T_ret. exact I.
    Qed.
    Lemma T_bool_val st p cs s i :
      toks cs -> length cs = 1 -> sc_ok st s -> is_ok st i -> T st (bool_val ev p cs s i) Qval.
    Proof.
      intros Hc Hl Hs Hi. destruct cs as [|c1 [|? ?]]; try discriminate.
      inversion Hc as [|? ? H1 _]; subst. unfold bool_val.
      tbind (apply Hev; assumption) as v1 Hv1.
      destruct v1; try (apply T_fail; exact I). apply T_ret. exact I.
    Qed.
    Lemma T_bool_op st p cs s i op :
      toks cs -> length cs = 2 -> sc_ok st s -> is_ok st i -> T st (bool_op ev p cs s i op) Qval.
    Proof.
      intros Hc Hl Hs Hi. unfold bool_op.
      tbind (apply T_operands2; assumption) as pr HQ.
      destruct (fst pr); try (apply T_fail; exact I).
      destruct (snd pr); try (apply T_fail; exact I). apply T_ret. exact I.
    Qed.
    Lemma T_str_op st p cs s i op :
      toks cs -> length cs = 2 -> sc_ok st s -> is_ok st i -> T st (str_op ev p cs s i op) Qval.
    Proof.
      intros Hc Hl Hs Hi. unfold str_op.
      tbind (apply T_operands2; assumption) as pr HQ.
      tbind (apply T_sprint_m) as s1 ?. tbind (apply T_sprint_m) as s2 ?. apply T_ret. exact I.
    Qed.
    Lemma T_cmp_op st p cs s i f g :
      toks cs -> length cs = 2 -> sc_ok st s -> is_ok st i -> T st (cmp_op ev p cs s i f g) Qval.
    Proof.
      intros Hc Hl Hs Hi. unfold cmp_op.
      tbind (apply T_attempt; apply T_num_op; try assumption; intros; apply T_ret; exact I) as r Hr.
      destruct r; [apply T_ret; exact Hr | apply T_str_op; assumption].
    Qed.
    Lemma T_gen_op st p cs s i neg :
      toks cs -> length cs = 2 -> sc_ok st s -> is_ok st i -> T st (gen_op ev p cs s i neg) Qval.
    Proof.
      intros Hc Hl Hs Hi. unfold gen_op.
      tbind (apply T_operands2; assumption) as pr HQ.
      destruct (uncomparable (fst pr) (snd pr)); [apply T_fail; exact I|].
      apply Tb_lift. pose proof (go_iface_eq_cases (fst pr) (snd pr)) as G.
      destruct (go_iface_eq (fst pr) (snd pr)); try contradiction; try exact I.
      apply T_ret. exact I.
    Qed.
    Lemma T_in_loop st v l : T st (in_loop v l) Qval.
    Proof.
      induction l as [|x r IH]; cbn [in_loop]; [apply T_ret; exact I|].
      destruct (uncomparable v x); [apply T_fail; exact I|].
      apply Tb_lift. pose proof (go_iface_eq_cases v x) as G.
      destruct (go_iface_eq v x) as [b| | | | |]; try contradiction; try exact I.
      destruct b; [apply T_ret; exact I | exact IH].
    Qed.
    Lemma T_in_op st p cs s i :
      toks cs -> length cs = 2 -> sc_ok st s -> is_ok st i -> T st (in_op ev p cs s i) Qval.
    Proof.
      intros Hc Hl Hs Hi. unfold in_op.
      tbind (apply T_operands2; assumption) as pr HQ. destruct HQ as [H1 H2].
      destruct (snd pr); try (apply T_fail; exact I).
      eapply Tb_get_arr; [exact H2|]. intros cells E L V.
      destruct (length cells <? len) eqn:E1; [apply Nat.ltb_lt in E1; lia|]. apply T_in_loop.
    Qed.
    Lemma T_notin_op st p cs s i :
      toks cs -> length cs = 2 -> sc_ok st s -> is_ok st i -> T st (notin_op ev p cs s i) Qval.
    Proof.
      intros Hc Hl Hs Hi. unfold notin_op.
      tbind (apply T_in_op; assumption) as r HQ.
      apply Tb_lift. destruct r; cbn; try exact I. apply T_ret. exact I.
    Qed.
    Lemma T_mod_op st p cs s i :
      toks cs -> length cs = 2 -> sc_ok st s -> is_ok st i -> T st (mod_op ev p cs s i) Qval.
    Proof.
      intros Hc Hl Hs Hi. unfold mod_op. apply T_num_op; try assumption.
      intros x y st'. cbv zeta. destruct (n_trunc y =? 0)%Z; [apply T_fail; exact I|].
      apply Tb_lift. unfold go_mod. destruct (n_trunc y =? 0)%Z; [exact I|]. apply T_ret. exact I.
    Qed.

    (* ---- literals *)
    Lemma T_eval_items p items : forall st idx s i a len,
      toks items -> arr_ok st a len -> sc_ok st s -> is_ok st i ->
      T st (eval_items ev p idx items s i a len) (fun pr st' => arr_ok st' (fst pr) (snd pr)).
    Proof.
      induction items as [|x r IH]; intros st idx s i a len Hc Ha Hs Hi; cbn [eval_items].
      - apply T_ret. exact Ha.
      - inversion Hc as [|? ? H1 Hc']; subst.
        tbind (apply Hev; assumption) as v Hv.
        tbind (apply T_slice_append; [assumption | constructor; [exact Hv | constructor]]) as pr HQ.
        destruct HQ as [HQ _]. apply IH; assumption.
    Qed.
    Lemma T_eval_list st p cs s i :
      toks cs -> sc_ok st s -> is_ok st i -> T st (eval_list ev p cs s i) Qval.
    Proof.
      intros Hc Hs Hi. unfold eval_list.
      tbind (apply T_alloc_arr; constructor) as a HQ.
      tbind (apply T_eval_items; try assumption; eexists; split; [exact HQ | cbn; lia]) as pr HP.
      apply T_ret. exact HP.
    Qed.
    Lemma go_map_key_cases k : match go_map_key k with RErr _ | RInvalid _ => False | _ => True end.
    Proof. destruct k; exact I. Qed.
    Lemma T_eval_kvps p kvps : forall st idx s i id,
      toks kvps ->
      forallb (fun k => is_name k NodeKVP && Nat.eqb (length (n_children k)) 2) kvps = true ->
      val_ok st (VMap id) -> sc_ok st s -> is_ok st i ->
      T st (eval_kvps ev p idx kvps s i id) Qtrue.
    Proof.
      induction kvps as [|x r IH]; intros st idx s i id Hc Hf Hid Hs Hi; cbn [eval_kvps].
      - apply T_ret. exact I.
      - inversion Hc as [|? ? H1 Hc']; subst. cbn [forallb] in Hf.
        apply andb_prop in Hf. destruct Hf as [Hx Hf]. apply andb_prop in Hx. destruct Hx as [Hx1 Hx2].
        apply Nat.eqb_eq in Hx2. pose proof (tok_kids _ H1) as Hk.
        destruct (n_children x) as [|k [|v [|? ?]]]; try discriminate.
        inversion Hk as [|? ? Hk1 Hk']; subst. inversion Hk' as [|? ? Hk2 _]; subst.
        rewrite Hx1.
        tbind (apply Hev; assumption) as key Hkey.
        tbind (apply Hev; assumption) as val Hval.
        destruct (hashable key); [|apply T_fail; exact I].
        apply Tb_lift. pose proof (go_map_key_cases key) as G.
        destruct (go_map_key key); try contradiction; try exact I.
        eapply Tb_get_map; [exact Hid|]. intros m Em Hm.
        tbind (apply T_set_map; [exact Hid | apply m_set_ok; assumption]) as ? ?.
        apply IH; assumption.
    Qed.
    Lemma T_eval_map st p cs s i :
      toks cs ->
      forallb (fun k => is_name k NodeKVP && Nat.eqb (length (n_children k)) 2) cs = true ->
      sc_ok st s -> is_ok st i -> T st (eval_map ev p cs s i) Qval.
    Proof.
      intros Hc Hf Hs Hi. unfold eval_map.
      tbind (apply T_alloc_map; constructor) as id Hid.
      match type of Hid with _ < length (st_maps ?s) => change (val_ok s (VMap id)) in Hid end.
      tbind (apply T_eval_kvps; assumption) as ? ?.
      apply T_ret. exact Hid.
    Qed.

    (* ---- statements, if, guard *)
    Lemma T_eval_statements p cs : forall st idx s i last,
      toks cs -> val_ok st last -> sc_ok st s -> is_ok st i ->
      T st (eval_statements ev p idx cs s i last) Qval.
    Proof.
      induction cs as [|c r IH]; intros st idx s i last Hc Hl Hs Hi; cbn [eval_statements].
      - apply T_ret. exact Hl.
      - inversion Hc as [|? ? H1 Hc']; subst.
        tbind (apply Hev; assumption) as v Hv. apply IH; assumption.
    Qed.
    Lemma go_assert_bool_cases site v :
      match go_assert_bool site v with RErr _ | RInvalid _ => False | _ => True end.
    Proof. destruct v; exact I. Qed.
    Lemma T_if_pairs p : forall k cs, length cs <= k -> forall st idx s i,
      toks cs -> if_ok cs = true -> sc_ok st s -> is_ok st i ->
      T st (if_pairs ev p idx cs s i) Qval.
    Proof.
      induction k as [|k IH]; intros cs Hk st idx s i Hc Hf Hs Hi.
      - destruct cs; [cbn; apply T_ret; exact I | cbn in Hk; lia].
      - destruct cs as [|g [|b r]]; cbn [if_pairs]; [apply T_ret; exact I | discriminate Hf |].
        cbn [if_ok] in Hf. apply andb_prop in Hf. destruct Hf as [Hg Hf].
        inversion Hc as [|? ? H1 Hc']; subst. inversion Hc' as [|? ? H2 Hc'']; subst.
        unfold is_name. rewrite Hg.
        tbind (apply Hev; assumption) as gv Hgv.
        apply Tb_lift. pose proof (go_assert_bool_cases S_ASSERT_BOOL gv) as G.
        destruct (go_assert_bool S_ASSERT_BOOL gv) as [bb| | | | |]; try contradiction; try exact I.
        destruct bb; [apply Hev; assumption|].
        apply IH; try assumption. cbn in Hk. lia.
    Qed.
    Lemma T_eval_if st p cs s i :
      toks cs -> if_ok cs = true -> sc_ok st s -> is_ok st i -> T st (eval_if ev p cs s i) Qval.
    Proof.
      intros Hc Hf Hs Hi. unfold eval_if.
      tbind (apply T_new_child; assumption) as c HQ.
      eapply T_if_pairs; try eassumption. apply le_n.
    Qed.
    Lemma T_eval_guard st p cs s i :
      toks cs -> 1 <= length cs -> sc_ok st s -> is_ok st i -> T st (eval_guard ev p cs s i) Qval.
    Proof.
      intros Hc Hl Hs Hi. unfold eval_guard. destruct cs as [|c r]; [cbn in Hl; lia|].
      inversion Hc as [|? ? H1 Hc']; subst.
      tbind (apply Hev; assumption) as v Hv.
      apply Tb_lift. destruct v; cbn; try exact I; apply T_ret; exact I.
    Qed.
    Lemma T_eval_return st p cs s i :
      toks cs -> sc_ok st s -> is_ok st i -> T st (eval_return ev p cs s i) Qval.
    Proof.
      intros Hc Hs Hi. unfold eval_return. destruct cs as [|c r]; [apply T_fail; exact I|].
      inversion Hc as [|? ? H1 Hc']; subst.
      tbind (apply Hev; assumption) as v Hv. apply T_fail. exact Hv.
    Qed.
    Lemma T_eval_mutex st p cs s i :
      toks cs -> length cs = 2 -> sc_ok st s -> is_ok st i -> T st (eval_mutex ev p cs s i) Qval.
    Proof.
      intros Hc Hl Hs Hi. destruct cs as [|c1 [|c2 [|? ?]]]; try discriminate.
      inversion Hc as [|? ? H1 Hc']; subst. inversion Hc' as [|? ? H2 _]; subst.
      unfold eval_mutex.
      tbind (apply T_new_child; assumption) as c HQ. apply Hev; assumption.
    Qed.
  End WithEv.
End I4.
