(* Proofs/RuleIndexProofs.v — lemmas about Model/RuleIndex.v.
   A. bit algebra of the uint64 masks            D. collection loop
   B. RuleMatcherKey: one step = a per-bit filter E. state leaf: match = Spec state pattern
   C. keys of a state leaf are independent        F. adding a rule to a state leaf
   G. the index tree: add_at / match_at / trig_at, build, dedupe *)
From Ecal Require Import Model.RuleIndex.
From Coq Require Import Lia.

Local Open Scope N_scope.

(* ================================================================ A. bits *)
Definition tb (x : N) (i : nat) : bool := N.testbit x (N.of_nat i).
Definition pw (i : nat) : N := 2 ^ N.of_nat i.

Lemma tb_pw i j : tb (pw i) j = Nat.eqb i j.
Proof.
  unfold tb, pw. rewrite N.pow2_bits_eqb.
  destruct (Nat.eqb_spec i j); [subst; apply N.eqb_refl | apply N.eqb_neq; lia].
Qed.

Lemma tb_lor a b i : tb (N.lor a b) i = tb a i || tb b i.
Proof. apply N.lor_spec. Qed.
Lemma tb_land a b i : tb (N.land a b) i = tb a i && tb b i.
Proof. apply N.land_spec. Qed.
Lemma tb_lxor a b i : tb (N.lxor a b) i = xorb (tb a i) (tb b i).
Proof. apply N.lxor_spec. Qed.
Lemma tb_0 i : tb 0 i = false.
Proof. apply N.bits_0. Qed.

Lemma pw_mod i : (i < 64)%nat -> pw i mod W64 = pw i.
Proof. intros H. apply N.mod_small. unfold pw, W64. apply N.pow_lt_mono_r; lia. Qed.

Lemma pw_inj i j : pw i = pw j -> i = j.
Proof.
  intros H. assert (E : tb (pw i) j = tb (pw j) j) by (rewrite H; reflexivity).
  rewrite !tb_pw, Nat.eqb_refl in E. apply Nat.eqb_eq; exact E.
Qed.

Lemma land_pw_pos a j : (0 <? N.land a (pw j)) = tb a j.
Proof.
  destruct (tb a j) eqn:E.
  - apply N.ltb_lt. destruct (N.eq_dec (N.land a (pw j)) 0) as [Z|NZ]; [|lia].
    exfalso. assert (H : tb (N.land a (pw j)) j = false) by (rewrite Z; apply tb_0).
    rewrite tb_land, E, tb_pw, Nat.eqb_refl in H. discriminate.
  - apply N.ltb_ge. assert (H : N.land a (pw j) = 0); [|lia].
    apply N.bits_inj_0. intros n. rewrite N.land_spec. unfold pw. rewrite N.pow2_bits_eqb.
    destruct (N.eqb_spec (N.of_nat j) n) as [<-|]; [unfold tb in E; rewrite E; reflexivity | apply andb_false_r].
Qed.

Lemma init_bits_ones n : (n <= 64)%nat -> init_bits n = N.ones (N.of_nat n).
Proof.
  intros H. destruct (Nat.eq_dec n 64) as [->|Hn]; [vm_compute; reflexivity|].
  unfold init_bits. fold (pw n). rewrite pw_mod by lia.
  rewrite N.ones_equiv. fold (pw n).
  assert (Hp : 0 < pw n) by (unfold pw; apply N.neq_0_lt_0, N.pow_nonzero; lia).
  assert (Hs : pw n < W64) by (unfold pw, W64; apply N.pow_lt_mono_r; lia).
  replace (pw n + W64 - 1) with (N.pred (pw n) + 1 * W64) by lia.
  rewrite N.mod_add by (unfold W64; apply N.pow_nonzero; lia).
  apply N.mod_small. lia.
Qed.

Lemma init_bits_tb n i : (n <= 64)%nat -> tb (init_bits n) i = (i <? n)%nat.
Proof.
  intros H. rewrite init_bits_ones by exact H. unfold tb.
  destruct (Nat.ltb_spec i n).
  - apply N.ones_spec_low. lia.
  - apply N.ones_spec_high. lia.
Qed.

(* ================================================================ B. one matcher *)
Lemma val_equal_eq a b : val_equal a b = true -> a = b.
Proof.
  destruct a, b; simpl; try discriminate; intros H; try reflexivity.
  - apply Bool.eqb_prop in H; congruence.
  - apply Z.eqb_eq in H; congruence.
  - apply N.eqb_eq in H; congruence.
Qed.

Lemma val_equal_unhashable_l w v : hashable w = false -> val_equal w v = false.
Proof. destruct w; simpl; try discriminate; reflexivity. Qed.
Lemma val_equal_unhashable_r w v : hashable v = false -> val_equal w v = false.
Proof. destruct v, w; simpl; try discriminate; reflexivity. Qed.

Definition is_some {A} (o : option A) : bool := match o with Some _ => true | None => false end.
Definition is_any (o : option req) : bool :=
  match o with Some (RVal VNull) => true | Some (RRegex _) => true | _ => false end.
Definition is_val (v : value) (o : option req) : bool :=
  match o with Some (RVal w) => val_equal w v | _ => false end.

(* the masks of one key matcher describe, bit by bit, the requirement [Rk i] that rule
   number i of the leaf has on this key *)
Record matcher_ok (Rk : nat -> option req) (m : matcher) : Prop := {
  mo_bits : forall i, tb (m_bits m) i = is_some (Rk i);
  mo_any : forall i, tb (m_any m) i = is_any (Rk i);
  mo_vals : forall v mask, v <> VNull -> vassoc v (m_vals m) = Some mask ->
                           forall i, tb mask i = is_val v (Rk i);
  mo_vals_none : forall v, v <> VNull -> vassoc v (m_vals m) = None ->
                           forall i, is_val v (Rk i) = false;
  mo_rx_pow : forall e, In e (m_rx m) -> exists j, fst e = pw j /\ Rk j = Some (RRegex (snd e));
  mo_rx_all : forall j id, Rk j = Some (RRegex id) -> In (pw j, id) (m_rx m)
}.

Lemma matcher_ok_ext Rk Rk' m :
  (forall i, Rk i = Rk' i) -> matcher_ok Rk m -> matcher_ok Rk' m.
Proof.
  intros E [H1 H2 H3 H4 H5 H6]. constructor; intros.
  - rewrite <- E; apply H1.
  - rewrite <- E; apply H2.
  - rewrite <- E; eapply H3; eauto.
  - rewrite <- E; eapply H4; eauto.
  - destruct (H5 _ H) as (j & A & B). exists j. rewrite <- E. auto.
  - apply H6. rewrite E. exact H.
Qed.

Lemma new_matcher_ok : matcher_ok (fun _ => None) new_matcher.
Proof. constructor; simpl; intros; try apply tb_0; try reflexivity; try contradiction; discriminate. Qed.

Section MatcherSem.
  Variable rx : N -> value -> bool.

  Definition pass (o : option req) (ov : option value) : bool :=
    match o with None => true | Some rq => req_ok rx rq ov end.

  Definition rx_step (v : value) (kmb : N) (e : N * N) : N :=
    if (0 <? N.land kmb (fst e)) && negb (rx (snd e) v)
    then N.lxor kmb (N.land kmb (fst e)) else kmb.

  Lemma rx_fold_bit v l : forall kmb i,
    (forall e, In e l -> exists j, fst e = pw j) ->
    tb (fold_left (rx_step v) l kmb) i =
    tb kmb i && forallb (fun e => negb (tb (fst e) i) || rx (snd e) v) l.
  Proof.
    induction l as [|e l IH]; intros kmb i Hl; simpl.
    - rewrite andb_true_r; reflexivity.
    - rewrite IH by (intros; apply Hl; right; assumption).
      destruct (Hl e (or_introl eq_refl)) as (j & Ej).
      unfold rx_step. rewrite Ej, land_pw_pos, tb_pw.
      destruct (rx (snd e) v) eqn:Er; simpl.
      + rewrite andb_false_r, orb_true_r. simpl. reflexivity.
      + rewrite andb_true_r, orb_false_r.
        destruct (tb kmb j) eqn:Ej'; simpl.
        * rewrite tb_lxor, tb_land, tb_pw.
          destruct (Nat.eqb_spec j i); simpl.
          -- rewrite andb_true_r. destruct (tb kmb i); reflexivity.
          -- rewrite andb_false_r. destruct (tb kmb i); reflexivity.
        * destruct (Nat.eqb_spec j i) as [<-|]; simpl; [rewrite Ej'|]; reflexivity.
  Qed.

  (* one key present in the event: bit i survives iff rule i's requirement on the key holds *)
  Lemma matcher_match_bit Rk m bits v i :
    matcher_ok Rk m ->
    tb (matcher_match rx m bits v) i = tb bits i && pass (Rk i) (Some v).
  Proof.
    intros [H1 H2 H3 H4 H5 H6]. unfold matcher_match.
    change (fun kmb e => if (0 <? N.land kmb (fst e)) && negb (rx (snd e) v)
                         then N.lxor kmb (N.land kmb (fst e)) else kmb) with (rx_step v).
    rewrite rx_fold_bit by (intros e He; destruct (H5 e He) as (j & A & _); eauto).
    rewrite tb_lxor, tb_land.
    (* the regex part *)
    assert (RX : forallb (fun e => negb (tb (fst e) i) || rx (snd e) v) (m_rx m) =
                 match Rk i with Some (RRegex id) => rx id v | _ => true end).
    { destruct (forallb _ (m_rx m)) eqn:F.
      - rewrite forallb_forall in F.
        destruct (Rk i) as [[w|id]|] eqn:ER; try reflexivity.
        specialize (F _ (H6 _ _ ER)). simpl in F. rewrite tb_pw, Nat.eqb_refl in F. simpl in F. auto.
      - assert (G : exists e, In e (m_rx m) /\ (negb (tb (fst e) i) || rx (snd e) v) = false).
        { clear -F. induction (m_rx m) as [|e l IH]; simpl in F; [discriminate|].
          destruct (negb (tb (fst e) i) || rx (snd e) v) eqn:E; simpl in F.
          - destruct (IH F) as (e' & A & B). exists e'; split; [right|]; assumption.
          - exists e; split; [left; reflexivity | assumption]. }
        destruct G as (e & He & Ge). apply orb_false_iff in Ge. destruct Ge as [G1 G2].
        destruct (H5 e He) as (j & A & B). rewrite A, tb_pw in G1.
        apply negb_false_iff, Nat.eqb_eq in G1. subst j. rewrite B. auto. }
    rewrite RX. clear RX.
    (* the mask part *)
    set (found := match v with VNull => None | _ => if hashable v then vassoc v (m_vals m) else None end).
    assert (FD : match found with
                 | Some additional => tb additional i = is_val v (Rk i) /\ v <> VNull
                 | None => v = VNull \/ is_val v (Rk i) = false
                 end).
    { unfold found. destruct v; try (left; reflexivity);
        try (simpl hashable; cbv iota;
             match goal with |- context [vassoc ?x _] =>
               destruct (vassoc x (m_vals m)) eqn:EV;
               [split; [eapply H3; eauto; discriminate | discriminate]
               | right; eapply H4; eauto; discriminate] end).
      - right. destruct (Rk i) as [[w|]|]; simpl; auto. apply val_equal_unhashable_r; reflexivity.
      - right. destruct (Rk i) as [[w|]|]; simpl; auto. apply val_equal_unhashable_r; reflexivity. }
    destruct found as [additional|].
    - destruct FD as [FD NV]. rewrite tb_lxor, tb_lor, FD, H1, H2.
      destruct (Rk i) as [[w|id]|]; [destruct w| |];
        unfold pass, req_ok, is_val, is_any, is_some; cbv beta iota;
        repeat match goal with |- context [val_equal ?a ?b] => destruct (val_equal a b) end;
        destruct (tb bits i); try destruct (rx id v); reflexivity.
    - rewrite tb_lxor, H1, H2.
      destruct FD as [->|FD].
      + destruct (Rk i) as [[w|id]|]; [destruct w| |]; simpl;
          destruct (tb bits i); try destruct (rx id VNull); reflexivity.
      + destruct (Rk i) as [[w|id]|]; [destruct w| |];
          unfold pass, req_ok, is_val, is_any, is_some in *; cbv beta iota in *;
          try rewrite FD;
          repeat match goal with |- context [val_equal ?a ?b] => destruct (val_equal a b) end;
          destruct (tb bits i); try destruct (rx id v); reflexivity.
  Qed.

  (* the key is missing in the event: every rule that requires it is removed *)
  Lemma matcher_unmatch_bit Rk m bits i :
    matcher_ok Rk m ->
    tb (matcher_unmatch m bits) i = tb bits i && pass (Rk i) None.
  Proof.
    intros [H1 _ _ _ _ _]. unfold matcher_unmatch. rewrite tb_lxor, tb_land, H1.
    destruct (Rk i); simpl; destruct (tb bits i); reflexivity.
  Qed.

  (* ============================================================== C. all keys *)
  Lemma match_keys_bit (R : nat -> N -> option req) st km : forall bits i,
    (forall k m, In (k, m) km -> matcher_ok (fun j => R j k) m) ->
    tb (match_keys rx st km bits) i =
    tb bits i && forallb (fun km => pass (R i (fst km)) (assoc (fst km) st)) km.
  Proof.
    induction km as [|[k m] km IH]; intros bits i H; simpl.
    - rewrite andb_true_r; reflexivity.
    - set (bits' := match assoc k st with
                    | Some v => matcher_match rx m bits v
                    | None => matcher_unmatch m bits end).
      assert (B : forall j, tb bits' j = tb bits j && pass (R j k) (assoc k st)).
      { intros j. unfold bits'. destruct (assoc k st).
        - apply (matcher_match_bit (fun j => R j k)). apply H; left; reflexivity.
        - apply (matcher_unmatch_bit (fun j => R j k)). apply H; left; reflexivity. }
      destruct (N.eqb_spec bits' 0) as [Z|NZ].
      + rewrite tb_0. specialize (B i). rewrite Z, tb_0 in B.
        rewrite andb_assoc, <- B. reflexivity.
      + rewrite IH by (intros; apply H; right; assumption).
        rewrite B, andb_assoc. reflexivity.
  Qed.

  (* ============================================================== D. collection *)
  Lemma collect_in bits rs : forall i0 r, (i0 + length rs <= 64)%nat ->
    In r (collect bits rs i0) <-> exists j, nth_error rs j = Some r /\ tb bits (i0 + j) = true.
  Proof.
    induction rs as [|x rs IH]; intros i0 r H; simpl.
    - split; [contradiction | intros (j & A & _); destruct j; discriminate].
    - simpl in H. fold (pw i0). rewrite pw_mod by lia. rewrite land_pw_pos.
      rewrite in_app_iff, IH by lia. split.
      + intros [A | (j & A & B)].
        * destruct (tb bits i0) eqn:E; [|contradiction]. destruct A as [<-|[]].
          exists 0%nat. rewrite Nat.add_0_r. auto.
        * exists (S j). rewrite <- plus_n_Sm. auto.
      + intros ([|j] & A & B).
        * simpl in A. injection A as <-. rewrite Nat.add_0_r in B. rewrite B. left; left; reflexivity.
        * right. exists j. rewrite <- plus_n_Sm in B. auto.
  Qed.
End MatcherSem.

(* ================================================================ E. state leaf *)
Definition Rof (rs : list rule) (i : nat) (k : N) : option req :=
  match nth_error rs i with Some r => assoc k (rule_state r) | None => None end.

Definition km_ok (R : nat -> N -> option req) (km : keymap) : Prop :=
  NoDup (map fst km) /\
  (forall k m, assoc k km = Some m -> matcher_ok (fun i => R i k) m) /\
  (forall k, assoc k km = None -> forall i, R i k = None).

Definition leaf_ok (rs : list rule) (km : keymap) : Prop :=
  (length rs <= 64)%nat /\
  Forall (fun r => NoDup (map fst (rule_state r))) rs /\
  km_ok (Rof rs) km.

Lemma assoc_in {A} k (l : list (N * A)) a : assoc k l = Some a -> In (k, a) l.
Proof.
  induction l as [|[k' a'] l IH]; simpl; [discriminate|].
  destruct (N.eqb_spec k' k); [intros [= <-]; subst; left; reflexivity | intros; right; auto].
Qed.

Lemma in_assoc {A} k (l : list (N * A)) a : NoDup (map fst l) -> In (k, a) l -> assoc k l = Some a.
Proof.
  induction l as [|[k' a'] l IH]; simpl; [contradiction|].
  intros ND [E|I].
  - injection E as -> ->. rewrite N.eqb_refl. reflexivity.
  - inversion ND; subst. destruct (N.eqb_spec k' k) as [->|]; [|auto].
    exfalso. apply H1. apply (in_map fst) in I. exact I.
Qed.

Lemma assoc_none_notin {A} k (l : list (N * A)) : assoc k l = None -> ~ In k (map fst l).
Proof.
  induction l as [|[k' a'] l IH]; simpl; [tauto|].
  destruct (N.eqb_spec k' k); [discriminate|]. intros H [E|I]; [congruence | exact (IH H I)].
Qed.

Lemma notin_assoc_none {A} k (l : list (N * A)) : ~ In k (map fst l) -> assoc k l = None.
Proof.
  induction l as [|[k' a'] l IH]; simpl; [reflexivity|]. intros H.
  destruct (N.eqb_spec k' k); [exfalso; apply H; left; assumption | apply IH; tauto].
Qed.

(* the state requirement of a rule, on the rule as the index sees it *)
Definition state_ok (rx : N -> value -> bool) (st : list (N * value)) (r : rule) : bool :=
  forallb (fun kr => req_ok rx (snd kr) (assoc (fst kr) st)) (rule_state r).

Lemma state_ok_spec rx r ev : state_ok rx (e_state ev) r = state_matches rx r ev.
Proof. unfold state_ok, state_matches, rule_state. destruct (r_state r); reflexivity. Qed.

Lemma leaf_match_spec rx st rs km r :
  leaf_ok rs km ->
  In r (leaf_match rx st rs km) <-> In r rs /\ state_ok rx st r = true.
Proof.
  intros (HL & HN & ND & HM & HA). unfold leaf_match.
  rewrite collect_in by (simpl; lia).
  assert (KEY : forall j r, nth_error rs j = Some r ->
            tb (match_keys rx st km (init_bits (length rs))) (0 + j) = state_ok rx st r).
  { intros j x Hj. simpl.
    rewrite (match_keys_bit rx (Rof rs)) by (intros k m I; apply HM, in_assoc; assumption).
    rewrite init_bits_tb by exact HL.
    assert (j < length rs)%nat by (apply nth_error_Some; congruence).
    replace (j <? length rs)%nat with true by (symmetry; apply Nat.ltb_lt; assumption). simpl.
    unfold Rof. rewrite Hj. unfold state_ok.
    assert (NDx : NoDup (map fst (rule_state x))).
    { rewrite Forall_forall in HN. apply HN. eapply nth_error_In; eauto. }
    apply Bool.eq_iff_eq_true. rewrite !forallb_forall. split.
    - intros F [k rq] I. simpl.
      pose proof (in_assoc _ _ _ NDx I) as A.
      destruct (assoc k km) as [m|] eqn:EK.
      + specialize (F _ (assoc_in _ _ _ EK)). simpl in F. rewrite A in F. exact F.
      + specialize (HA _ EK j). unfold Rof in HA. rewrite Hj in HA. congruence.
    - intros F [k m] I. simpl.
      destruct (assoc k (rule_state x)) as [rq|] eqn:A; [|reflexivity].
      simpl. exact (F _ (assoc_in _ _ _ A)). }
  split.
  - intros (j & A & B). rewrite (KEY _ _ A) in B. split; [eapply nth_error_In; eauto | exact B].
  - intros (I & S). apply In_nth_error in I. destruct I as (j & A). exists j. split; [exact A|].
    rewrite (KEY _ _ A). exact S.
Qed.

(* ================================================================ F. adding to a leaf *)
Definition updR (Rk : nat -> option req) (n : nat) (x : option req) : nat -> option req :=
  fun i => if Nat.eqb i n then x else Rk i.

Lemma vassoc_vor v w b l :
  vassoc v (vor w b l) =
  if val_equal w v then Some (N.lor (match vassoc w l with Some m => m | None => 0 end) b)
  else vassoc v l.
Proof.
  induction l as [|[w' m'] l IH]; simpl.
  - destruct (val_equal w v); reflexivity.
  - destruct (val_equal w' w) eqn:E1; simpl.
    + apply val_equal_eq in E1; subst w'. destruct (val_equal w v); reflexivity.
    + rewrite IH. destruct (val_equal w v) eqn:E2.
      * apply val_equal_eq in E2; subst v. rewrite E1. reflexivity.
      * reflexivity.
Qed.

Lemma null_dec (w : value) : {w = VNull} + {w <> VNull}.
Proof. destruct w; (left; reflexivity) || (right; discriminate). Qed.

Lemma matcher_add_val m bit w : w <> VNull ->
  matcher_add m bit (RVal w) =
  if hashable w
  then mkMatcher (N.lor (m_bits m) bit) (m_any m) (vor w bit (m_vals m)) (m_rx m)
  else mkMatcher (N.lor (m_bits m) bit) (m_any m) (m_vals m) (m_rx m).
Proof. destruct w; try reflexivity; congruence. Qed.

Lemma matcher_add_ok Rk m n rq :
  matcher_ok Rk m -> Rk n = None ->
  matcher_ok (updR Rk n (Some rq)) (matcher_add m (pw n) rq).
Proof.
  intros [H1 H2 H3 H4 H5 H6] HN.
  assert (RXP : forall l, (forall e, In e l -> exists j, fst e = pw j /\ Rk j = Some (RRegex (snd e))) ->
                forall e, In e l -> exists j, fst e = pw j /\ updR Rk n (Some rq) j = Some (RRegex (snd e))).
  { intros l Hl e He. destruct (Hl e He) as (j & A & B). exists j. split; [exact A|].
    unfold updR. destruct (Nat.eqb_spec j n); [subst; congruence | exact B]. }
  assert (BITS : forall i, tb (N.lor (m_bits m) (pw n)) i = is_some (updR Rk n (Some rq) i)).
  { intros i. rewrite tb_lor, H1, tb_pw. unfold updR. rewrite (Nat.eqb_sym n i).
    destruct (Nat.eqb_spec i n); [subst; rewrite HN; reflexivity | apply orb_false_r]. }
  assert (ANY1 : forall i, is_any (Some rq) = true ->
                 tb (N.lor (m_any m) (pw n)) i = is_any (updR Rk n (Some rq) i)).
  { intros i Ha. rewrite tb_lor, H2, tb_pw. unfold updR. rewrite (Nat.eqb_sym n i).
    destruct (Nat.eqb_spec i n); [subst; rewrite HN, Ha; reflexivity | apply orb_false_r]. }
  assert (ANY0 : forall i, is_any (Some rq) = false ->
                 tb (m_any m) i = is_any (updR Rk n (Some rq) i)).
  { intros i Ha. rewrite H2. unfold updR.
    destruct (Nat.eqb_spec i n); [subst; rewrite HN, Ha; reflexivity | reflexivity]. }
  assert (VSAME : forall v, v <> VNull -> is_val v (Some rq) = false ->
                  (forall mask, vassoc v (m_vals m) = Some mask ->
                                forall i, tb mask i = is_val v (updR Rk n (Some rq) i)) /\
                  (vassoc v (m_vals m) = None -> forall i, is_val v (updR Rk n (Some rq) i) = false)).
  { intros v NV Hv. split.
    - intros mask Hm i. rewrite (H3 _ _ NV Hm). unfold updR.
      destruct (Nat.eqb_spec i n); [subst; rewrite HN, Hv; reflexivity | reflexivity].
    - intros Hm i. unfold updR. destruct (Nat.eqb_spec i n); [exact Hv | apply H4; assumption]. }
  assert (RXALL : forall j id, updR Rk n (Some rq) j = Some (RRegex id) -> j <> n -> In (pw j, id) (m_rx m)).
  { intros j id Hj Hn. unfold updR in Hj. destruct (Nat.eqb_spec j n); [contradiction | auto]. }
  destruct rq as [w|id].
  - destruct (null_dec w) as [->|NW].
    + (* NULL *)
      constructor; simpl; intros.
      * apply BITS. * apply ANY1; reflexivity.
      * eapply (proj1 (VSAME v H (ltac:(destruct v; simpl; try reflexivity; congruence)))); eauto.
      * eapply (proj2 (VSAME v H (ltac:(destruct v; simpl; try reflexivity; congruence)))); eauto.
      * eapply RXP; eauto.
      * destruct (Nat.eq_dec j n) as [->|Hn]; [|eapply RXALL; eauto].
        unfold updR in H. rewrite Nat.eqb_refl in H. discriminate.
    + assert (NA : is_any (Some (RVal w)) = false) by (destruct w; try reflexivity; congruence).
      rewrite matcher_add_val by exact NW. destruct (hashable w) eqn:HW.
      * (* a hashable value: bitsValue[w] |= bit *)
        constructor; simpl; intros.
        -- apply BITS. -- apply ANY0; exact NA.
        -- rewrite vassoc_vor in H0. destruct (val_equal w v) eqn:E.
           ++ injection H0 as <-. rewrite tb_lor, tb_pw. unfold updR. rewrite (Nat.eqb_sym n i).
              destruct (Nat.eqb_spec i n).
              ** unfold is_val. rewrite E. apply orb_true_r.
              ** rewrite orb_false_r. apply val_equal_eq in E; subst v.
                 destruct (vassoc w (m_vals m)) eqn:EV;
                   [eapply H3; eauto | rewrite tb_0; symmetry; apply H4; auto].
           ++ eapply (proj1 (VSAME v H E)); eauto.
        -- rewrite vassoc_vor in H0. destruct (val_equal w v) eqn:E; [discriminate|].
           eapply (proj2 (VSAME v H E)); eauto.
        -- eapply RXP; eauto.
        -- destruct (Nat.eq_dec j n) as [->|Hn]; [|eapply RXALL; eauto].
           unfold updR in H. rewrite Nat.eqb_refl in H. discriminate.
      * (* list / map: unhashable, only rm.bits *)
        constructor; simpl; intros.
        -- apply BITS. -- apply ANY0; exact NA.
        -- eapply (proj1 (VSAME v H (val_equal_unhashable_l w v HW))); eauto.
        -- eapply (proj2 (VSAME v H (val_equal_unhashable_l w v HW))); eauto.
        -- eapply RXP; eauto.
        -- destruct (Nat.eq_dec j n) as [->|Hn]; [|eapply RXALL; eauto].
           unfold updR in H. rewrite Nat.eqb_refl in H. discriminate.
  - (* regex *)
    constructor; simpl; intros.
    + apply BITS. + apply ANY1; reflexivity.
    + eapply (proj1 (VSAME v H eq_refl)); eauto.
    + eapply (proj2 (VSAME v H eq_refl)); eauto.
    + destruct H as [<-|I].
      * exists n. simpl. split; [reflexivity|]. unfold updR. rewrite Nat.eqb_refl. reflexivity.
      * apply filter_In in I. destruct I as [I _]. eapply RXP; eauto.
    + destruct (Nat.eq_dec j n) as [->|Hn].
      * unfold updR in H. rewrite Nat.eqb_refl in H. injection H as ->. left; reflexivity.
      * right. apply filter_In. split; [eapply RXALL; eauto|]. simpl.
        apply negb_true_iff, N.eqb_neq. intros E. apply pw_inj in E. contradiction.
Qed.

Lemma assoc_kupd k' k f km :
  assoc k' (kupd k f km) =
  if k =? k' then Some (f (match assoc k km with Some m => m | None => new_matcher end))
  else assoc k' km.
Proof.
  induction km as [|[k0 m0] km IH]; simpl.
  - destruct (N.eqb_spec k k'); reflexivity.
  - destruct (N.eqb_spec k0 k) as [->|Hn]; simpl.
    + destruct (N.eqb_spec k k'); reflexivity.
    + rewrite IH. destruct (N.eqb_spec k k') as [->|]; [|reflexivity].
      destruct (N.eqb_spec k0 k'); [contradiction | reflexivity].
Qed.

Lemma keys_kupd k f km :
  map fst (kupd k f km) = if is_some (assoc k km) then map fst km else map fst km ++ [k].
Proof.
  induction km as [|[k0 m0] km IH]; simpl; [reflexivity|].
  destruct (N.eqb_spec k0 k) as [->|Hn]; simpl; [reflexivity|].
  rewrite IH. destruct (assoc k km); reflexivity.
Qed.

Definition updR2 (R : nat -> N -> option req) (n : nat) (k : N) (x : option req) :=
  fun i k' => if Nat.eqb i n && (k =? k') then x else R i k'.

Lemma km_ok_ext R R' km : (forall i k, R i k = R' i k) -> km_ok R km -> km_ok R' km.
Proof.
  intros E (A & B & C). split; [exact A|]. split.
  - intros k m H. eapply matcher_ok_ext; [|apply B; exact H]. intros; apply E.
  - intros k H i. rewrite <- E. apply C; exact H.
Qed.

Lemma kupd_ok R km n k rq :
  km_ok R km -> R n k = None ->
  km_ok (updR2 R n k (Some rq)) (kupd k (fun m => matcher_add m (pw n) rq) km).
Proof.
  intros (ND & HM & HA) HN. split; [|split].
  - rewrite keys_kupd. destruct (assoc k km) eqn:E; simpl; [exact ND|].
    (* NoDup (keys ++ [k]) *)
    clear -ND E. apply assoc_none_notin in E. revert ND E.
    induction (map fst km) as [|x l IH]; simpl; intros.
    + constructor; [tauto | constructor].
    + inversion ND; subst. constructor.
      * rewrite in_app_iff. simpl. intuition.
      * apply IH; tauto.
  - intros k' m'. rewrite assoc_kupd. destruct (N.eqb_spec k k') as [<-|Hn].
    + intros [= <-].
      eapply matcher_ok_ext with (Rk := updR (fun i => R i k) n (Some rq)).
      { intros i. unfold updR, updR2. rewrite N.eqb_refl, andb_true_r. reflexivity. }
      apply matcher_add_ok; [|exact HN].
      destruct (assoc k km) eqn:E; [apply HM; exact E|].
      eapply matcher_ok_ext; [|apply new_matcher_ok]. intros i; simpl. symmetry; apply HA; exact E.
    + intros H. eapply matcher_ok_ext; [|apply HM; exact H].
      intros i. unfold updR2. destruct (N.eqb_spec k k'); [contradiction|]. rewrite andb_false_r. reflexivity.
  - intros k'. rewrite assoc_kupd. destruct (N.eqb_spec k k') as [<-|Hn]; [discriminate|].
    intros H i. unfold updR2. destruct (N.eqb_spec k k'); [contradiction|]. rewrite andb_false_r.
    apply HA; exact H.
Qed.

Lemma fold_kupd_ok n st : forall R km,
  NoDup (map fst st) ->
  km_ok R km -> (forall k, In k (map fst st) -> R n k = None) ->
  km_ok (fun i k => if Nat.eqb i n then match assoc k st with Some rq => Some rq | None => R i k end
                    else R i k)
        (fold_left (fun km kr => kupd (fst kr) (fun m => matcher_add m (pw n) (snd kr)) km) st km).
Proof.
  induction st as [|[k rq] st IH]; intros R km ND OK HN; simpl.
  - eapply km_ok_ext; [|exact OK]. intros i k. destruct (Nat.eqb i n); reflexivity.
  - inversion ND; subst.
    eapply km_ok_ext; [|apply IH with (R := updR2 R n k (Some rq))].
    + intros i k'. simpl. unfold updR2.
      destruct (Nat.eqb_spec i n); simpl; [|reflexivity].
      destruct (N.eqb_spec k k') as [<-|Hn].
      * rewrite (notin_assoc_none _ _ H1). reflexivity.
      * reflexivity.
    + exact H2.
    + apply kupd_ok; [exact OK | apply HN; left; reflexivity].
    + intros k' I. unfold updR2. destruct (N.eqb_spec k k') as [<-|Hn]; [contradiction|].
      rewrite andb_false_r. apply HN; right; exact I.
Qed.

Lemma leaf_add_ok r rs km :
  leaf_ok rs km -> (length rs < 64)%nat -> NoDup (map fst (rule_state r)) ->
  leaf_ok (fst (leaf_add r rs km)) (snd (leaf_add r rs km)).
Proof.
  intros (HL & HN & OK) LT ND. unfold leaf_add; simpl.
  split; [rewrite app_length; simpl; lia|]. split.
  - apply Forall_app; split; [exact HN | constructor; [exact ND | constructor]].
  - fold (pw (length rs)). rewrite pw_mod by exact LT.
    eapply km_ok_ext; [|apply (fold_kupd_ok (length rs) (rule_state r) (Rof rs) km ND OK)].
    + intros i k. unfold Rof.
      destruct (Nat.eqb_spec i (length rs)) as [->|Hn].
      * rewrite nth_error_app2, Nat.sub_diag by lia. simpl.
        replace (nth_error rs (length rs)) with (@None rule) by (symmetry; apply nth_error_None; lia).
        destruct (assoc k (rule_state r)); reflexivity.
      * destruct (Nat.lt_ge_cases i (length rs)).
        -- rewrite nth_error_app1 by assumption. reflexivity.
        -- rewrite nth_error_app2 by assumption.
           replace (nth_error rs i) with (@None rule) by (symmetry; apply nth_error_None; lia).
           destruct (i - length rs)%nat as [|d] eqn:E; [lia|]. simpl. destruct d; reflexivity.
    + intros k _. unfold Rof.
      replace (nth_error rs (length rs)) with (@None rule) by (symmetry; apply nth_error_None; lia).
      reflexivity.
Qed.

Lemma leaf_ok_empty : leaf_ok [] [].
Proof.
  split; [simpl; lia|]. split; [constructor|]. split; [constructor|]. split.
  - intros k m H; discriminate.
  - intros k _ i. unfold Rof. destruct i; reflexivity.
Qed.

(* ================================================================ G. the index tree *)
Inductive wf : index -> Prop :=
| wf_all rs : wf (AllLeaf rs)
| wf_state rs km : leaf_ok rs km -> wf (StateLeaf rs km)
| wf_kind alls singles :
    Forall wf alls -> (forall s l, In (s, l) singles -> Forall wf l) -> wf (KindNode alls singles).

(* what addRuleAtLevel's choice of the sub index type guarantees at the next level *)
Definition fits (r : rule) (p : path) (ix : index) : Prop :=
  match ix with
  | KindNode _ _ => p <> []
  | StateLeaf rs _ => p = [] /\ (length rs < 64)%nat
  | AllLeaf _ => p = [] /\ rule_state r = []
  end.

Lemma wf_new ty : wf (new_index ty).
Proof.
  destruct ty; simpl; constructor.
  - constructor. - intros s l [].
  - apply leaf_ok_empty.
Qed.

Lemma assoc_supd t s l singles :
  assoc t (supd s l singles) = if s =? t then Some l else assoc t singles.
Proof.
  induction singles as [|[s0 l0] rest IH]; simpl.
  - reflexivity.
  - destruct (N.eqb_spec s0 s) as [->|Hn]; simpl.
    + destruct (N.eqb_spec s t); reflexivity.
    + rewrite IH. destruct (N.eqb_spec s t) as [->|]; [|reflexivity].
      destruct (N.eqb_spec s0 t); [contradiction | reflexivity].
Qed.

Lemma in_supd a b s l singles :
  In (a, b) (supd s l singles) -> (a, b) = (s, l) \/ In (a, b) singles.
Proof.
  induction singles as [|[s0 l0] rest IH]; simpl.
  - intros [E|[]]; left; congruence.
  - destruct (N.eqb_spec s0 s) as [->|Hn]; simpl.
    + intros [E|I]; [left; congruence | right; right; exact I].
    + intros [E|I]; [right; left; exact E|]. destruct (IH I); [left | right; right]; assumption.
Qed.

Section Tree.
  Variable rx : N -> value -> bool.
  Variable st : list (N * value).

  Definition hit (r : rule) (p k : path) : Prop :=
    kind_matches p k = true /\ state_ok rx st r = true.

  Definition add_post (r : rule) (p : path) (ix ix' : index) : Prop :=
    wf ix' /\ tag_of ix' = tag_of ix /\
    (forall k x, In x (match_at rx st k ix') <-> In x (match_at rx st k ix) \/ (x = r /\ hit r p k)) /\
    (forall k, trig_at k ix' = trig_at k ix || kind_matches p k).

  Lemma upd_first_post ty f l r p' :
    Forall wf l ->
    (forall x, wf x -> usable ty x = true \/ x = new_index ty ->
               exists x', f x = Ok x' /\ add_post r p' x x') ->
    (forall k, match_at rx st k (new_index ty) = []) ->
    (forall k, trig_at k (new_index ty) = true -> kind_matches p' k = true) ->
    exists l', upd_first ty f l = Ok l' /\ Forall wf l' /\
      (forall k x, In x (flat_map (match_at rx st k) l') <->
                   In x (flat_map (match_at rx st k) l) \/ (x = r /\ hit r p' k)) /\
      (forall k, existsb (trig_at k) l' = existsb (trig_at k) l || kind_matches p' k).
  Proof.
    intros W HF HN HT. induction l as [|x l IH]; simpl.
    - destruct (HF _ (wf_new ty) (or_intror eq_refl)) as (x' & E & W' & _ & M & T).
      rewrite E. simpl. eexists; split; [reflexivity|]. split; [constructor; [exact W'|constructor]|]. split.
      + intros k y. simpl. rewrite app_nil_r, M, HN. simpl. tauto.
      + intros k. simpl. rewrite T, orb_false_r.
        destruct (trig_at k (new_index ty)) eqn:ET; [rewrite (HT _ ET)|]; reflexivity.
    - inversion W as [|? ? Wx Wl]; subst.
      destruct (usable ty x) eqn:U.
      + destruct (HF _ Wx (or_introl U)) as (x' & E & W' & _ & M & T).
        rewrite E. simpl. eexists; split; [reflexivity|]. split; [constructor; assumption|]. split.
        * intros k y. simpl. rewrite !in_app_iff, M. tauto.
        * intros k. simpl. rewrite T.
          destruct (trig_at k x), (kind_matches p' k), (existsb (trig_at k) l); reflexivity.
      + destruct (IH Wl) as (l'' & E & W'' & M & T). rewrite E. simpl.
        eexists; split; [reflexivity|]. split; [constructor; assumption|]. split.
        * intros k y. simpl. rewrite !in_app_iff, M. tauto.
        * intros k. simpl. rewrite T.
          destruct (trig_at k x), (kind_matches p' k), (existsb (trig_at k) l); reflexivity.
  Qed.

  Lemma kind_matches_nil_r p : kind_matches p [] = true -> p = [].
  Proof. destruct p; [reflexivity | discriminate]. Qed.

  Lemma add_at_post r :
    NoDup (map fst (rule_state r)) ->
    forall p ix, wf ix -> fits r p ix ->
    exists ix', add_at r p ix = Ok ix' /\ add_post r p ix ix'.
  Proof.
    intros ND. induction p as [|s p' IH]; intros ix W F.
    - destruct ix as [alls singles|rs km|rs]; simpl in F.
      + contradiction F; reflexivity.
      + destruct F as [_ LT]. cbn [add_at].
        inversion W as [|? ? OK|]; subst.
        pose proof (leaf_add_ok r rs km OK LT ND) as OK'.
        destruct (leaf_add r rs km) as [rs' km'] eqn:E. simpl in OK'.
        eexists; split; [reflexivity|].
        split; [apply wf_state; exact OK'|]. split; [reflexivity|]. split.
        * intros k x. destruct k as [|t k]; simpl.
          -- rewrite (leaf_match_spec rx st _ _ x OK'), (leaf_match_spec rx st _ _ x OK).
             unfold leaf_add in E. injection E as <- _. rewrite in_app_iff. simpl. unfold hit. simpl.
             split.
             ++ intros [[I|[<-|[]]] S]; [left; tauto | right; tauto].
             ++ intros [[I S]|[-> [_ S]]]; tauto.
          -- split; [contradiction | intros [[]|(_ & H & _)]; discriminate H].
        * intros k; destruct k; reflexivity.
      + destruct F as [_ E]. simpl. eexists; split; [reflexivity|].
        split; [constructor|]. split; [reflexivity|]. split.
        * intros k x. destruct k as [|t k]; simpl.
          -- rewrite in_app_iff. simpl. unfold hit, state_ok. rewrite E. simpl.
             split; [intros [I|[<-|[]]]; auto | intros [I|[-> _]]; auto].
          -- split; [contradiction | intros [[]|(_ & H & _)]; discriminate H].
        * intros k; destruct k; reflexivity.
    - destruct ix as [alls singles|rs km|rs]; simpl in F; [| destruct F; discriminate ..].
      inversion W as [| |? ? Walls Wsingles]; subst.
      cbn [add_at].
      set (ty := match p' with
                 | [] => match r_state r with Some _ => TState | None => TAll end
                 | _ :: _ => TKind
                 end).
      assert (STEP : forall l, Forall wf l ->
                exists l', upd_first ty (add_at r p') l = Ok l' /\ Forall wf l' /\
                  (forall k x, In x (flat_map (match_at rx st k) l') <->
                               In x (flat_map (match_at rx st k) l) \/ (x = r /\ hit r p' k)) /\
                  (forall k, existsb (trig_at k) l' = existsb (trig_at k) l || kind_matches p' k)).
      { intros l Wl. apply upd_first_post; [exact Wl| | |].
        - intros x Wx Hx. apply IH; [exact Wx|].
          unfold ty in Hx. destruct p' as [|s' p''].
          + destruct (r_state r) eqn:ER.
            * destruct Hx as [U| ->]; [|simpl; split; [reflexivity|lia]].
              destruct x as [| rs km |]; try (simpl in U; discriminate). simpl.
              split; [reflexivity|]. unfold usable, MAXR in U. cbn [tag_of tag_eqb andb] in U.
              destruct (Nat.leb_spec 64 (length rs)) as [|LT]; [discriminate U | exact LT].
            * assert (ES : rule_state r = []) by (unfold rule_state; rewrite ER; reflexivity).
              destruct Hx as [U| ->]; [|simpl; auto].
              destruct x; simpl in U; try discriminate U. simpl. auto.
          + destruct Hx as [U| ->]; [|simpl; discriminate].
            destruct x; simpl in U; try discriminate U. simpl. discriminate.
        - intros k. destruct ty, k; reflexivity.
        - intros k. unfold ty. destruct p' as [|s' p''].
          + destruct (r_state r); destruct k; simpl; auto; discriminate.
          + destruct k; simpl; discriminate. }
      destruct (N.eqb_spec s WILD) as [->|NWILD].
      + destruct (STEP alls Walls) as (alls' & E & W' & M & T). rewrite E. simpl.
        eexists; split; [reflexivity|].
        split; [constructor; assumption|]. split; [reflexivity|]. split.
        * intros k x. destruct k as [|t k]; simpl.
          -- unfold hit; simpl. split; [contradiction | intros [[]|(_ & H & _)]; discriminate H].
          -- rewrite !in_app_iff, M. unfold hit. simpl. tauto.
        * intros k. destruct k as [|t k]; simpl; [reflexivity|]. rewrite T.
          destruct (existsb (trig_at k) alls), (kind_matches p' k); simpl;
            rewrite ?orb_true_r, ?orb_false_r; reflexivity.
      + set (l := match assoc s singles with Some l => l | None => [] end).
        assert (Wl : Forall wf l).
        { unfold l. destruct (assoc s singles) eqn:EA; [|constructor].
          eapply Wsingles. apply assoc_in. exact EA. }
        destruct (STEP l Wl) as (l' & E & W' & M & T). rewrite E. simpl.
        eexists; split; [reflexivity|].
        split; [|split; [reflexivity|split]].
        * constructor; [exact Walls|]. intros a b I. apply in_supd in I.
          destruct I as [[= -> ->]|I]; [exact W' | eapply Wsingles; exact I].
        * intros k x. destruct k as [|t k]; simpl.
          -- unfold hit; simpl. split; [contradiction | intros [[]|(_ & H & _)]; discriminate H].
          -- rewrite assoc_supd. unfold hit. simpl.
             replace (s =? WILD) with false by (symmetry; apply N.eqb_neq; exact NWILD). simpl.
             destruct (N.eqb_spec s t) as [<-|Hn]; simpl.
             ++ rewrite !in_app_iff, M. unfold hit, l.
                destruct (assoc s singles); simpl; tauto.
             ++ rewrite !in_app_iff. split; [tauto | intros [H|(_ & H & _)]; [exact H | discriminate H]].
        * intros k. destruct k as [|t k]; simpl; [reflexivity|]. rewrite assoc_supd.
          replace (s =? WILD) with false by (symmetry; apply N.eqb_neq; exact NWILD). simpl.
          destruct (N.eqb_spec s t) as [<-|Hn]; simpl.
          -- rewrite T. unfold l. destruct (assoc s singles); simpl;
               destruct (existsb (trig_at k) alls), (kind_matches p' k); simpl; try reflexivity;
               rewrite ?orb_true_r, ?orb_false_r; reflexivity.
          -- rewrite orb_false_r. reflexivity.
  Qed.
End Tree.

(* ================================================================ H. build, Match, IsTriggering *)
Definition kinds_match (r : rule) (k : path) : bool :=
  existsb (fun p => kind_matches p k) (r_kinds r).

Lemma memN_in x l : memN x l = true <-> In x l.
Proof.
  unfold memN. rewrite existsb_exists. split.
  - intros (y & I & E). apply N.eqb_eq in E. subst; exact I.
  - intros I. exists x. split; [exact I | apply N.eqb_refl].
Qed.

Lemma memN_notin x l : memN x l = false <-> ~ In x l.
Proof. rewrite <- memN_in. destruct (memN x l); split; congruence. Qed.

Lemma NoDup_map_inj {A B} (f : A -> B) l x y :
  NoDup (map f l) -> In x l -> In y l -> f x = f y -> x = y.
Proof.
  induction l as [|a l IH]; simpl; [contradiction|].
  intros ND Ix Iy E. inversion ND; subst.
  destruct Ix as [<-|Ix], Iy as [<-|Iy]; auto.
  - exfalso. apply H1. rewrite E. apply in_map; exact Iy.
  - exfalso. apply H1. rewrite <- E. apply in_map; exact Ix.
Qed.

Lemma dedupe_spec l :
  (forall x y, In x l -> In y l -> r_name x = r_name y -> x = y) ->
  forall seen, NoDup (map r_name (dedupe seen l)) /\
               (forall x, In x (dedupe seen l) <-> In x l /\ ~ In (r_name x) seen).
Proof.
  induction l as [|r l IH]; intros U seen; simpl.
  - split; [constructor | intros x; tauto].
  - assert (U' : forall x y, In x l -> In y l -> r_name x = r_name y -> x = y)
      by (intros; apply U; simpl; auto).
    destruct (memN (r_name r) seen) eqn:E.
    + destruct (IH U' seen) as [ND M]. split; [exact ND|].
      intros x. rewrite M. apply memN_in in E. split; [tauto|].
      intros [[<-|I] NS]; [contradiction | tauto].
    + destruct (IH U' (r_name r :: seen)) as [ND M]. apply memN_notin in E. split.
      * simpl. constructor; [|exact ND]. intros I. apply in_map_iff in I.
        destruct I as (x & Ex & Ix). apply M in Ix. destruct Ix as [_ NS]. apply NS. left. auto.
      * intros x. simpl. rewrite M. simpl. split.
        -- intros [<-|[I NS]]; [tauto|]. split; [tauto|]. intros S; apply NS; right; exact S.
        -- intros [[<-|I] NS]; [left; reflexivity|].
           destruct (N.eq_dec (r_name r) (r_name x)) as [En|Nn].
           ++ left. apply U; simpl; auto.
           ++ right. split; [exact I|]. intros [S|S]; [contradiction | contradiction].
Qed.

Section Build.
  Variable rx : N -> value -> bool.
  Variable st : list (N * value).

  Definition matched (x : rule) (k : path) : Prop :=
    kinds_match x k = true /\ state_ok rx st x = true.

  Lemma add_kinds_post r :
    NoDup (map fst (rule_state r)) ->
    forall ps ix, (forall p, In p ps -> p <> []) -> wf ix -> tag_of ix = TKind ->
    exists ix', add_kinds r ps ix = Ok ix' /\ wf ix' /\ tag_of ix' = TKind /\
      (forall k x, In x (match_at rx st k ix') <->
                   In x (match_at rx st k ix) \/
                   (x = r /\ existsb (fun p => kind_matches p k) ps = true /\ state_ok rx st r = true)) /\
      (forall k, trig_at k ix' = trig_at k ix || existsb (fun p => kind_matches p k) ps).
  Proof.
    intros ND. induction ps as [|p ps IH]; intros ix NE W TK; simpl.
    - eexists; split; [reflexivity|]. split; [exact W|]. split; [exact TK|]. split.
      + intros k x. split; [tauto | intros [H|(_ & H & _)]; [exact H | discriminate H]].
      + intros k. rewrite orb_false_r. reflexivity.
    - assert (F : fits r p ix).
      { destruct ix; simpl in TK; try discriminate TK. simpl. apply NE; left; reflexivity. }
      destruct (add_at_post rx st r ND p ix W F) as (ix1 & E1 & W1 & T1 & M1 & G1).
      rewrite E1. simpl.
      destruct (IH ix1 (fun q I => NE q (or_intror I)) W1 (eq_trans T1 TK)) as (ix2 & E2 & W2 & T2 & M2 & G2).
      exists ix2. split; [exact E2|]. split; [exact W2|]. split; [exact T2|]. split.
      + intros k x. rewrite M2, M1. unfold hit. rewrite orb_true_iff. tauto.
      + intros k. rewrite G2, G1. rewrite orb_assoc. reflexivity.
  Qed.

  Lemma build_from_post : forall rules rt done,
    wf (rt_index rt) -> tag_of (rt_index rt) = TKind ->
    (forall n, In n (rt_names rt) <-> In n (names done)) ->
    NoDup (names (done ++ rules)) -> Forall wf_rule rules ->
    (forall k x, In x (match_at rx st k (rt_index rt)) <-> In x done /\ matched x k) ->
    (forall k, trig_at k (rt_index rt) = existsb (fun x => kinds_match x k) done) ->
    exists rt', build_from rt rules = Ok rt' /\ wf (rt_index rt') /\
      (forall k x, In x (match_at rx st k (rt_index rt')) <-> In x (done ++ rules) /\ matched x k) /\
      (forall k, trig_at k (rt_index rt') = existsb (fun x => kinds_match x k) (done ++ rules)).
  Proof.
    induction rules as [|r rules IH]; intros rt done W TK NM ND WF M T; simpl.
    - eexists; split; [reflexivity|]. rewrite app_nil_r. auto.
    - inversion WF as [|? ? (K1 & K2 & K3) WF']; subst.
      unfold add_rule.
      assert (NI : ~ In (r_name r) (rt_names rt)).
      { rewrite NM. unfold names in ND. rewrite map_app in ND. simpl in ND.
        apply NoDup_remove_2 in ND. intros I. apply ND. apply in_or_app; left; exact I. }
      apply memN_notin in NI. rewrite NI.
      destruct (r_kinds r) as [|p0 ps0] eqn:EK; [contradiction K1; reflexivity|].
      assert (NDS : NoDup (map fst (rule_state r))).
      { unfold rule_state. destruct (r_state r); [exact K3 | constructor]. }
      destruct (add_kinds_post r NDS (p0 :: ps0) (rt_index rt) K2 W TK) as (ix' & E & W' & TK' & M' & T').
      rewrite E. simpl.
      replace (done ++ r :: rules) with ((done ++ [r]) ++ rules) by (rewrite <- app_assoc; reflexivity).
      apply IH; simpl; try assumption.
      + intros n. unfold names. rewrite map_app, in_app_iff. simpl. rewrite NM. unfold names. tauto.
      + rewrite <- app_assoc. exact ND.
      + intros k x. rewrite M', M, in_app_iff. simpl. unfold matched. split.
        * intros [[I Mx]|(-> & A & B)]; [tauto|]. split; [right; left; reflexivity|].
          unfold kinds_match. rewrite EK. auto.
        * intros [[I|[<-|[]]] Mx]; [left; tauto|]. right.
          unfold kinds_match in Mx. rewrite EK in Mx. tauto.
      + intros k. rewrite T', T, existsb_app. simpl. unfold kinds_match at 3. rewrite EK, orb_false_r. reflexivity.
  Qed.
End Build.

Lemma Ok_inj {A} (a b : A) : Ok a = Ok b -> a = b.
Proof. intros [= E]; exact E. Qed.

Theorem build_ok rules : wf_rules rules -> exists rt, build rules = Ok rt.
Proof.
  intros [ND WF].
  destruct (build_from_post (fun _ _ => false) [] rules new_root []) as (rt & E & _); simpl; auto.
  - constructor; [constructor | intros s l []].
  - tauto.
  - intros k x. destruct k; simpl; tauto.
  - intros k; destruct k; reflexivity.
  - exists rt; exact E.
Qed.

Theorem index_match_exact rx rules rt :
  wf_rules rules -> build rules = Ok rt ->
  forall ev,
    NoDup (match_ev rx rt ev) /\
    (forall r, In r (match_ev rx rt ev) <-> In r (spec_matches rx rules ev)) /\
    is_triggering rt ev = existsb (fun r => kinds_match r (e_kind ev)) rules.
Proof.
  intros [ND WF] B ev.
  destruct (build_from_post rx (e_state ev) rules new_root []) as (rt' & E & W & M & T); simpl; auto.
  - constructor; [constructor | intros s l []].
  - tauto.
  - intros k x. destruct k; simpl; tauto.
  - intros k; destruct k; reflexivity.
  - unfold build in B. rewrite B in E. apply Ok_inj in E. subst rt'. simpl in M, T.
    unfold match_ev.
    destruct (dedupe_spec (match_at rx (e_state ev) (e_kind ev) (rt_index rt))) with (seen := @nil N) as [NDn Min].
    { intros x y Ix Iy. apply M in Ix. apply M in Iy. apply (NoDup_map_inj r_name rules); tauto. }
    split; [eapply NoDup_map_inv; exact NDn|]. split.
    + intros r. rewrite Min, M. unfold spec_matches. rewrite filter_In.
      unfold matched, rule_matches. rewrite andb_true_iff, state_ok_spec. unfold kinds_match. simpl. tauto.
    + unfold is_triggering. apply T.
Qed.

Theorem index_match_exact_ex (rx : N -> value -> bool) (rules : list rule) :
  wf_rules rules ->
  exists rt, build rules = Ok rt /\
    forall ev, NoDup (match_ev rx rt ev) /\
               forall r, In r (match_ev rx rt ev) <-> In r (spec_matches rx rules ev).
Proof.
  intros WF. destruct (build_ok rules WF) as [rt B]. exists rt. split; [exact B|].
  intros ev. destruct (index_match_exact rx rules rt WF B ev) as (A & M & _). auto.
Qed.

Theorem triggering_overapproximates rx rules rt :
  wf_rules rules -> build rules = Ok rt ->
  forall ev, spec_matches rx rules ev <> [] -> is_triggering rt ev = true.
Proof.
  intros WF B ev NE.
  destruct (index_match_exact rx rules rt WF B ev) as (_ & _ & T). rewrite T.
  destruct (spec_matches rx rules ev) as [|r l] eqn:E; [contradiction NE; reflexivity|].
  assert (I : In r (spec_matches rx rules ev)) by (rewrite E; left; reflexivity).
  unfold spec_matches in I. apply filter_In in I. destruct I as [I R].
  unfold rule_matches in R. apply andb_true_iff in R. destruct R as [R _].
  apply existsb_exists. exists r. split; [exact I | exact R].
Qed.

(* IsTriggering depends on the event kind only (this is what makes the cache key sound) *)
Lemma is_triggering_kind rt e1 e2 : e_kind e1 = e_kind e2 -> is_triggering rt e1 = is_triggering rt e2.
Proof. unfold is_triggering. intros ->. reflexivity. Qed.

(* ================================================================ I. the old collection loop *)
Lemma old_collect_loop_inv fuel matchBits : (2 ^ 63 <= matchBits)%N ->
  forall cb, (cb = 0 \/ exists j, (j <= 63)%nat /\ cb = pw j) ->
  old_collect_loop fuel matchBits cb = None.
Proof.
  intros HM. induction fuel as [|f IH]; intros cb I; simpl; [reflexivity|].
  assert (LE : cb <= matchBits).
  { destruct I as [->|(j & Hj & ->)]; [lia|].
    eapply N.le_trans; [|exact HM]. unfold pw. apply N.pow_le_mono_r; lia. }
  apply N.leb_le in LE. rewrite LE. rewrite IH; [reflexivity|].
  destruct I as [->|(j & Hj & ->)]; [left; reflexivity|].
  destruct (Nat.eq_dec j 63) as [->|Hn].
  - left. vm_compute. reflexivity.
  - right. exists (S j). split; [lia|].
    replace (pw j * 2) with (pw (S j)).
    + apply pw_mod. lia.
    + unfold pw. rewrite Nat2N.inj_succ, N.pow_succ_r'. lia.
Qed.

Lemma old_collect_loop_diverges fuel matchBits :
  (2 ^ 63 <= matchBits)%N -> old_collect_loop fuel matchBits 1 = None.
Proof.
  intros H. apply old_collect_loop_inv; [exact H|]. right. exists 0%nat. split; [lia | reflexivity].
Qed.
