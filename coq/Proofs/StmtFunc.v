(* Proofs/StmtFunc.v — C08, statement level, extended guards: named function definitions
   `func name(p1, ..., pn) { }` against the full parser model (ndFunc, items of
   Model/Parser.v).  Every parameter is an expression of the guarded expression language
   (identifiers, presets `x=1`, ...), read by run(0) up to the "," or the ")". *)
From Coq Require Import List String NArith Bool Arith Lia ZArith.
From Ecal Require Import Common.Bytes Common.Ast gen.Tokens gen.Grammar Spec.ParseSpec
     Model.Printer Proofs.PrinterProofs Model.StmtPrinter Spec.StmtFormatSpec Spec.StmtFormatSpec2 Model.Parser
     Proofs.StmtState Proofs.StmtExpr Proofs.StmtProofs Proofs.StmtKey Proofs.StmtKey2 Proofs.StmtTry.
Import ListNotations.
Local Open Scope string_scope.
Local Open Scope nat_scope.
Local Open Scope list_scope.

(* ---------------------------------------------------------------------------------- *)
(* table facts *)

Definition name_check (e : grammar_entry) : bool :=
  implb (String.eqb (ge_name e) NodeEOF) (ge_token e =? TokenEOF).
Lemma names_ok : forallb name_check grammar_table = true.
Proof. vm_compute. reflexivity. Qed.

(* only the EOF token makes an EOF node *)
Lemma name_not_eof id : id <> TokenEOF -> String.eqb (name_of id) NodeEOF = false.
Proof.
  intros H. unfold name_of. destruct (entry_of id) as [e|] eqn:E; [|reflexivity].
  unfold entry_of in E. apply find_some in E. destruct E as [Hin Heq]. apply Nat.eqb_eq in Heq.
  pose proof names_ok as K. rewrite forallb_forall in K. specialize (K e Hin). unfold name_check in K.
  destruct (String.eqb (ge_name e) NodeEOF); [|reflexivity]. cbn [implb] in K. apply Nat.eqb_eq in K. congruence.
Qed.

Lemma null_den_func runf c s : ge_null (snd c) = "ndFunc" -> null_den V runf c s = ndFunc V runf c s.
Proof. intros H. unfold null_den. rewrite H. reflexivity. Qed.

Definition commat (ln : nat) : tok := kwt ln TokenCOMMA.

Lemma stop_comma rb ln : stopP rb ln (cn false (commat ln)).
Proof.
  unfold stopP, cn, commat, kwt. cbn [fst snd tk t_id t_line].
  split; [left; vm_compute; lia | repeat split; intros; discriminate].
Qed.

(* ---------------------------------------------------------------------------------- *)
(* the printed parameter list *)

Lemma join_comma_cons2 (k k2 : list item) r : join_comma (k :: k2 :: r) = k ++ kw TokenCOMMA :: join_comma (k2 :: r).
Proof. reflexivity. Qed.

Lemma nls_join ps : Forall wfe ps -> nls (join_comma (map pp ps)) = 0.
Proof.
  induction 1 as [|p r Hp Hr IH]; [reflexivity|]. destruct r as [|p2 r'].
  - cbn [map join_comma]. apply nls_pp. apply wfe_wf; exact Hp.
  - cbn [map] in *. rewrite join_comma_cons2, nls_app. cbn [nls kw]. rewrite IH.
    rewrite nls_pp by (apply wfe_wf; exact Hp). reflexivity.
Qed.

Lemma lay_join_cons2 ln p p2 r K : wfe p ->
  lay ln (join_comma (map pp (p :: p2 :: r))) ++ K =
  lay ln (pp p) ++ commat ln :: lay ln (join_comma (map pp (p2 :: r))) ++ K.
Proof.
  intros Hp. cbn [map]. rewrite join_comma_cons2. rewrite lay_app0 by (apply nls_pp; apply wfe_wf; exact Hp).
  rewrite lay_kw. rewrite <- app_assoc. reflexivity.
Qed.

Lemma pp_len_pos ln e : wfe e -> 1 <= List.length (lay ln (pp e)).
Proof. intros W. destruct (pp_head_wfe e W) as (id & v & a & r & E & _). rewrite E. cbn [lay List.length]. lia. Qed.

Lemma join_len ps ln : Forall wfe ps -> List.length ps <= List.length (lay ln (join_comma (map pp ps))).
Proof.
  induction 1 as [|p r Hp Hr IH]; [cbn; lia|]. destruct r as [|p2 r'].
  - cbn [map join_comma List.length]. pose proof (pp_len_pos ln p Hp). lia.
  - pose proof (len_of _ _ (lay_join_cons2 ln p p2 r' [] Hp)) as H. rewrite !app_nil_r in H. rewrite H.
    rewrite app_length. cbn [List.length] in *. pose proof (pp_len_pos ln p Hp). lia.
Qed.

Lemma headk_join ps ln rest : Forall wfe ps -> headk (lay ln (join_comma (map pp ps)) ++ rparen ln :: rest).
Proof.
  intros H. destruct H as [|p r Hp Hr].
  - exact known_rparen.
  - destruct r as [|p2 r'].
    + cbn [map join_comma]. apply headk_lay_pp. apply wfe_wf; exact Hp.
    + rewrite lay_join_cons2 by exact Hp. apply headk_lay_pp. apply wfe_wf; exact Hp.
Qed.

(* ---------------------------------------------------------------------------------- *)
(* the items loop of ndFunc *)

Lemma items_S runf k ends rb acc s :
  items V runf (S k) ends rb acc s =
  if is_not_end_and_not_tokens s ends then
    do exp, s1 <- runf rb s;
    with_cur s1 "items: p.node.Token" (fun t _ =>
      if t_id t =? TokenCOMMA then
        do _, s2 <- skipToken V TokenCOMMA s1; items V runf k ends rb (acc ++ [snd exp]) s2
      else items V runf k ends rb (acc ++ [snd exp]) s1)
  else ROk acc s.
Proof. reflexivity. Qed.

Lemma items_end runf kf acc ln rest :
  items V runf (S kf) [TokenRPAREN] 0 acc (st (Some (cn false (rparen ln))) rest false) =
  ROk acc (st (Some (cn false (rparen ln))) rest false).
Proof. reflexivity. Qed.

Lemma items_go e ln rest : wfe e ->
  is_not_end_and_not_tokens (pos false (lay ln (pp e) ++ rest)) [TokenRPAREN] = true.
Proof.
  intros W. destruct (pp_head_wfe e W) as (id & v & a & r & E & H1 & H2). rewrite E. cbn [lay app]. rewrite pos_cons.
  unfold is_not_end_and_not_tokens. rewrite cur_st. cbn [cn fst snd tk t_id].
  rewrite entd_name, (name_not_eof id H2). cbn [negb andb forallb].
  pose proof (expr_start_hstart id H1 H2) as Hh.
  rewrite (hstart_not id TokenRPAREN Hh) by (unfold closers; simpl; tauto). reflexivity.
Qed.

Definition ptree (ln : nat) (p : node) : node := setl ln (erase p).

Lemma items_params ps : Forall wfe ps -> forall f kf acc ln rest,
  List.length (lay ln (join_comma (map pp ps))) + List.length rest <= f ->
  List.length ps + 1 <= kf ->
  items V (run V (S f)) kf [TokenRPAREN] 0 acc (pos false (lay ln (join_comma (map pp ps)) ++ rparen ln :: rest)) =
  ROk (acc ++ map (ptree ln) ps) (st (Some (cn false (rparen ln))) rest false).
Proof.
  induction 1 as [|p r Hp Hr IH]; intros f kf acc ln rest Hf Hkf.
  - cbn [map join_comma lay app]. rewrite app_nil_r, pos_cons.
    destruct kf as [|kf]; [cbn [List.length] in Hkf; lia|]. apply items_end.
  - destruct kf as [|kf]; [cbn [List.length] in Hkf; lia|]. cbn [List.length] in Hkf.
    destruct r as [|p2 r'].
    + cbn [map join_comma] in *. rewrite items_S. rewrite items_go by exact Hp.
      rewrite (expr_run p f false ln (rparen ln) rest Hp known_rparen (stop_rparen 0 ln false) Hf).
      cbn [rbind]. unfold with_cur. rewrite cur_st. cbn [cn fst].
      change (t_id (rparen ln) =? TokenCOMMA) with false. cbv iota. cbn [snd].
      destruct kf as [|kf]; [lia|]. rewrite items_end. reflexivity.
    + pose proof (len_of _ _ (lay_join_cons2 ln p p2 r' [] Hp)) as Hl. rewrite !app_nil_r in Hl.
      rewrite app_length in Hl. cbn [List.length] in Hl. rewrite Hl in Hf. clear Hl.
      rewrite lay_join_cons2 by exact Hp. rewrite items_S. rewrite items_go by exact Hp.
      rewrite (expr_run p f false ln (commat ln) _ Hp known_comma (stop_comma 0 ln))
        by (rewrite app_length; cbn [List.length]; lia).
      cbn [rbind]. unfold with_cur. rewrite cur_st. cbn [cn fst].
      change (t_id (commat ln) =? TokenCOMMA) with true. cbv iota. cbn [snd].
      fold (cn false (commat ln)).
      rewrite skipToken_pos by (try reflexivity; apply headk_join; exact Hr). cbn [rbind].
      rewrite (IH f kf (acc ++ [setl ln (erase p)]) ln rest) by (cbn [List.length] in *; lia).
      rewrite <- app_assoc. reflexivity.
Qed.

Lemma strip_ptrees ln ps : Forall wfe ps -> map strip (map (ptree ln) ps) = map erase ps.
Proof.
  induction 1 as [|p r Hp _ IH]; [reflexivity|]. cbn [map]. unfold ptree at 1. rewrite strip_expr by exact Hp.
  rewrite IH. reflexivity.
Qed.

(* ---------------------------------------------------------------------------------- *)
(* func *)

Lemma lay_tok ln id v a r : lay ln (Printer.T id v a :: r) = tk ln id v a :: lay ln r.
Proof. reflexivity. Qed.

Lemma lay_func ln x J X K : nls J = 0 ->
  lay ln (kw TokenFUNC :: identt x :: kw TokenLPAREN :: J ++ kw TokenRPAREN :: block X) ++ K =
  kwt ln TokenFUNC :: tk ln TokenIDENTIFIER x false :: kwt ln TokenLPAREN :: lay ln J ++
    rparen ln :: kwt ln TokenLBRACE :: lay (S ln) (X ++ [kw TokenRBRACE]) ++ K.
Proof.
  intros HJ. rewrite lay_kw. unfold identt. rewrite lay_tok. rewrite lay_kw. cbn [app]. do 3 f_equal.
  rewrite lay_app0 by exact HJ. rewrite lay_kw. rewrite <- app_assoc. cbn [app]. do 2 f_equal.
Qed.

Lemma name_func : name_of TokenFUNC = NodeFUNC. Proof. reflexivity. Qed.

Lemma ps_func2 x ps b : PPis2 b -> PS2 (SFunc x ps b).
Proof.
  intros IHb W f ln tc k Hs0 _ Hf. pose proof (proj1 Hs0) as Hs. cbn [wfS2] in W. destruct W as (Wps & Wb).
  pose proof Hs as (Kt & _).
  change (pp_stmt (SFunc x ps b)) with
    (kw TokenFUNC :: identt x :: kw TokenLPAREN :: join_comma (map pp ps) ++ kw TokenRPAREN :: block (pp_lines b)) in *.
  pose proof (nls_join ps Wps) as HJ. set (J := join_comma (map pp ps)) in *.
  pose proof (len_of _ _ (lay_func ln x J (pp_lines b) [] HJ)) as Hl0. rewrite !app_nil_r in Hl0.
  cbn [List.length] in Hl0. rewrite app_length in Hl0. cbn [List.length] in Hl0.
  rewrite Hl0 in Hf. clear Hl0.
  rewrite lay_func by exact HJ.
  set (BODY := lay (S ln) (pp_lines b ++ [kw TokenRBRACE]) ++ tc :: k).
  assert (HlenB : List.length BODY = List.length (lay (S ln) (pp_lines b ++ [kw TokenRBRACE])) + S (List.length k))
    by (unfold BODY; rewrite app_length; reflexivity).
  destruct f as [|f]; [lia|].
  rewrite (run_kw (S f) ln TokenFUNC "ndFunc") by (try discriminate; try reflexivity; exact known_ident).
  rewrite null_den_func by reflexivity. unfold ndFunc, with_cur. rewrite cur_pos_cons. cbn [cn fst].
  change (t_id (tk ln TokenIDENTIFIER x false) =? TokenIDENTIFIER) with true. cbv iota.
  rewrite pos_cons. fold (cn false (tk ln TokenIDENTIFIER x false)).
  rewrite acceptChild_pos by (try reflexivity; exact known_lparen). cbn [rbind]. rewrite pos_cons.
  rewrite skipToken_pos by (try reflexivity; unfold J; apply headk_join; exact Wps). cbn [rbind].
  assert (Hne : lay ln J ++ rparen ln :: kwt ln TokenLBRACE :: BODY <> []) by (destruct (lay ln J); discriminate).
  rewrite fuel_of_pos by exact Hne.
  unfold J. rewrite (items_params ps Wps f _ [] ln (kwt ln TokenLBRACE :: BODY)).
  2:{ fold J. cbn [List.length]. lia. }
  2:{ fold J. rewrite app_length. cbn [List.length]. pose proof (join_len ps ln Wps). fold J in H. lia. }
  cbn [rbind app].
  rewrite skipToken_pos by (try reflexivity; exact known_lbrace). cbn [rbind]. rewrite pos_cons.
  destruct (IHb Wb (S f) (S ln) (cn false (kwt ln TokenLBRACE)) (tc :: k) eq_refl Kt ltac:(cbn [List.length]; lia))
    as (trsb & Epis & Hmapb).
  unfold BODY. rewrite Epis. cbn [rbind pos].
  rewrite finish_stmt with (ln := ln); [| exact Hs | unfold rn; cbn [snd fst]; rewrite mk_node_kw by discriminate; reflexivity].
  unfold rn at 1. cbn [fst snd]. rewrite mk_node_kw by discriminate. do 2 eexists. split; [reflexivity|]. split; [|reflexivity].
  rewrite entd_name, name_func, identnode_rn. cbn [strip app map embed]. rewrite !strip_constructed.
  rewrite strip_ptrees by exact Wps. rewrite Hmapb. reflexivity.
Qed.
