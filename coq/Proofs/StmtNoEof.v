(* Proofs/StmtNoEof.v — C08, statement level: no printed token of a guarded program is the
   end-of-file token (needed for NewLABuffer: the ring stops filling at an EOF token). *)
From Coq Require Import List String NArith Bool Arith Lia ZArith.
From Ecal Require Import Common.Bytes Common.Ast gen.Tokens gen.Grammar
     Model.Printer Proofs.PrinterProofs Model.StmtPrinter Spec.StmtFormatSpec Proofs.StmtExpr Proofs.StmtProofs.
Import ListNotations.
Local Open Scope string_scope.
Local Open Scope nat_scope.
Local Open Scope list_scope.

Definition noeofb (it : item) : bool :=
  match it with Printer.T id _ _ => negb (Nat.eqb id TokenEOF) | NL => true end.
Definition no_eof_token (l : list item) : bool := forallb noeofb l.

Lemma ne_app a b : no_eof_token (a ++ b) = no_eof_token a && no_eof_token b.
Proof. apply forallb_app. Qed.

Lemma ne_cons x l : no_eof_token (x :: l) = noeofb x && no_eof_token l.
Proof. reflexivity. Qed.

Lemma ne_kw id : id <> TokenEOF -> noeofb (kw id) = true.
Proof. intros H. unfold kw, noeofb. apply negb_true_iff. apply Nat.eqb_neq. exact H. Qed.

Lemma ne_wrap w k : no_eof_token k = true -> no_eof_token (wrap w k) = true.
Proof. intros H. destruct w; unfold wrap; [|exact H]. rewrite ne_cons, ne_app, H. reflexivity. Qed.

Lemma ne_expr e : wfe e -> no_eof_token (pp e) = true.
Proof.
  induction 1 as [id v i a ln Ha Hne Hs | id v i a ln l r Hi Hl IHl Hr IHr He | id v i a ln x Hp Hel Hx IHx].
  - rewrite pp_leaf, classify_atom by assumption. cbn [assemble no_eof_token forallb noeofb].
    apply Nat.eqb_neq in Hne. rewrite Hne. reflexivity.
  - rewrite pp_bin, classify_bin by assumption. cbn [assemble]. rewrite ne_app, ne_cons.
    rewrite !ne_wrap by assumption. rewrite ne_kw; [reflexivity|]. intros ->. vm_compute in Hi. discriminate.
  - rewrite pp_pre, classify_pre by assumption. cbn [assemble]. rewrite ne_cons, ne_wrap by assumption.
    rewrite ne_kw; [reflexivity|]. intros ->. vm_compute in Hp. discriminate.
Qed.

Lemma ne_block X : no_eof_token X = true -> no_eof_token (block X) = true.
Proof. intros H. unfold block. rewrite !ne_cons, ne_app, H. reflexivity. Qed.

Lemma ne_sep k : no_eof_token (sep_of k) = true.
Proof. unfold sep_of. destruct (continues k); reflexivity. Qed.

Definition NS (s : stmt) : Prop := wfS s -> no_eof_token (pp_stmt s) = true.
Definition NB (b : sblock) : Prop := wfB b -> no_eof_token (pp_lines b) = true /\ no_eof_token (pp_more b) = true.
Definition NT (r : iftail) : Prop := wfT r -> no_eof_token (pp_tail r) = true.

Theorem no_eof_all :
  (forall s, NS s) /\ (forall b, NB b) /\ (forall r, NT r) /\
  (forall (e : StmtPrinter.excepts), True) /\ (forall (o : oblock), True).
Proof.
  apply stmt_mutind; try (intros; exact I).
  - intros e W. apply ne_expr; exact W.
  - intros _. reflexivity.
  - intros e W. change (pp_stmt (SReturn1 e)) with (kw TokenRETURN :: pp e). rewrite ne_cons, (ne_expr e W). reflexivity.
  - intros g b Hb r Hr W. cbn [wfS] in W. destruct W as (Wg & Wb & Wr).
    change (pp_stmt (SIf g b r)) with (kw TokenIF :: pp g ++ block (pp_lines b) ++ pp_tail r).
    rewrite ne_cons, !ne_app, (ne_expr g Wg), (ne_block _ (proj1 (Hb Wb))), (Hr Wr). reflexivity.
  - intros g b Hb W. cbn [wfS] in W. destruct W as (Wg & Wb).
    change (pp_stmt (SFor g b)) with (kw TokenFOR :: pp g ++ block (pp_lines b)).
    rewrite ne_cons, !ne_app, (ne_expr g Wg), (ne_block _ (proj1 (Hb Wb))). reflexivity.
  - intros x b Hb W. cbn [wfS] in W.
    change (pp_stmt (SMutex x b)) with (kw TokenMUTEX :: identt x :: block (pp_lines b) ++ [NL]).
    rewrite !ne_cons, !ne_app, (ne_block _ (proj1 (Hb W))). reflexivity.
  - intros b _ ex _ ow _ fin _ W. destruct W.
  - intros x ps b _ W. destruct W.
  - intros _. split; reflexivity.
  - intros s Hs b Hb W. cbn [wfB] in W. destruct W as (Ws & Wb). destruct (Hb Wb) as [_ Hm].
    cbn [pp_lines pp_more]. rewrite !ne_app, !ne_cons, ne_sep, (Hs Ws), Hm. split; reflexivity.
  - intros _. reflexivity.
  - intros b Hb W. cbn [wfT] in W. cbn [pp_tail]. rewrite ne_cons, (ne_block _ (proj1 (Hb W))). reflexivity.
  - intros g b Hb r Hr W. cbn [wfT] in W. destruct W as (Wg & Wb & Wr & _).
    cbn [pp_tail]. rewrite ne_cons, !ne_app, (ne_expr g Wg), (ne_block _ (proj1 (Hb Wb))), (Hr Wr). reflexivity.
Qed.

Lemma no_eof_prog b : wfB b -> no_eof_token (pp_prog b) = true.
Proof.
  intros W. destruct no_eof_all as (HS & HB & _). destruct b as [|s [|s2 r]].
  - reflexivity.
  - cbn [wfB] in W. cbn [pp_prog]. apply HS. apply W.
  - change (pp_prog (BCons s (BCons s2 r))) with (pp_lines (BCons s (BCons s2 r))). apply HB; exact W.
Qed.
