(* Proofs/StmtFinal.v — C08, statement level: the printer model ignores token positions;
   program-level printer equality; idempotence. *)
From Coq Require Import List String NArith Bool Arith Lia ZArith.
From Ecal Require Import Common.Bytes Common.Ast gen.Tokens gen.Grammar
     Model.Printer Proofs.PrinterProofs Model.StmtPrinter Spec.StmtFormatSpec Proofs.StmtExpr Proofs.StmtProofs
     Proofs.StmtPrinterEq Proofs.StmtTop.
Import ListNotations.
Local Open Scope string_scope.
Local Open Scope nat_scope.
Local Open Scope list_scope.

Lemma n_name_strip c : n_name (strip c) = n_name c. Proof. destruct c; reflexivity. Qed.
Lemma n_children_strip c : n_children (strip c) = map strip (n_children c). Proof. destruct c; reflexivity. Qed.
Lemma classify_strip c : classify (strip c) = classify c.
Proof. unfold classify. rewrite n_name_strip, n_children_strip, map_length. reflexivity. Qed.
Lemma first_child_strip c : first_child_name (strip c) = first_child_name c.
Proof. unfold first_child_name. rewrite n_children_strip. destruct (n_children c); [reflexivity|]. cbn [map]. apply n_name_strip. Qed.

Lemma needs_strip par idx c : needs par idx (strip c) = needs par idx c.
Proof. unfold needs. rewrite n_name_strip, classify_strip. reflexivity. Qed.

Lemma go_strip par cs : Forall (fun c => pp (strip c) = pp c) cs ->
  forall idx, go_fix par idx (map strip cs) = go_fix par idx cs.
Proof.
  induction 1 as [|c cs Hc _ IH]; intros idx; cbn [go_fix map]; [reflexivity|].
  rewrite needs_strip, Hc, IH. reflexivity.
Qed.

Lemma ident_tail_strip cs : forall ks, ident_tail (combine (map strip cs) ks) = ident_tail (combine cs ks).
Proof.
  induction cs as [|c cs IH]; intros ks; [reflexivity|]. destruct ks as [|k ks]; [reflexivity|].
  cbn [map combine ident_tail]. rewrite n_name_strip, IH. reflexivity.
Qed.

Lemma except_heads_cons c k c2 k2 r :
  except_heads ((c, k) :: (c2, k2) :: r) =
  k ++ (if negb (String.eqb (n_name c2) "as") && (2 <=? List.length ((c2, k2) :: r)) then [kw TokenCOMMA] else [])
    ++ except_heads ((c2, k2) :: r).
Proof. reflexivity. Qed.

Lemma except_heads_strip cs : forall ks, except_heads (combine (map strip cs) ks) = except_heads (combine cs ks).
Proof.
  induction cs as [|c cs IH]; intros ks; [reflexivity|]. destruct ks as [|k ks]; [reflexivity|].
  destruct cs as [|c2 cs]; [reflexivity|]. destruct ks as [|k2 ks]; [reflexivity|].
  specialize (IH (k2 :: ks)). cbn [map combine] in *. rewrite !except_heads_cons, IH, n_name_strip.
  cbn [List.length]. rewrite !combine_length, map_length. reflexivity.
Qed.

Lemma if_tail_strip n : forall (cs : list node) (ks : list (list item)), List.length cs <= n ->
  if_tail (combine (map strip cs) ks) = if_tail (combine cs ks).
Proof.
  induction n as [|n IH]; intros cs ks Hn.
  - destruct cs; [reflexivity | cbn [List.length] in Hn; lia].
  - destruct cs as [|g [|s cs]]; [reflexivity | destruct ks as [|k [|k2 ks]]; reflexivity |].
    destruct ks as [|kg [|kb ks]]; [reflexivity | reflexivity |].
    cbn [map combine if_tail]. rewrite first_child_strip.
    rewrite (IH cs ks) by (cbn [List.length] in Hn; lia).
    destruct cs as [|c3 cs]; [reflexivity|]. destruct ks as [|k3 ks]; reflexivity.
Qed.

Lemma skipn_combine_strip (cs : list node) (ks : list (list item)) k :
  skipn k (combine (map strip cs) ks) = combine (map strip (skipn k cs)) (skipn k ks).
Proof.
  revert cs ks. induction k as [|k IH]; intros cs ks; [reflexivity|].
  destruct cs as [|c cs]; [reflexivity|]. destruct ks as [|x ks]; [cbn [map combine skipn]; destruct (map strip (skipn k cs)); reflexivity|].
  cbn [map combine skipn]. apply IH.
Qed.

Lemma skipn_combine (cs : list node) (ks : list (list item)) k :
  skipn k (combine cs ks) = combine (skipn k cs) (skipn k ks).
Proof.
  revert cs ks. induction k as [|k IH]; intros cs ks; [reflexivity|].
  destruct cs as [|c cs]; [reflexivity|]. destruct ks as [|x ks]; [cbn [combine skipn]; destruct (skipn k cs); reflexivity|].
  cbn [combine skipn]. apply IH.
Qed.

Lemma assemble_special_strip semi name v cs ks :
  assemble_special semi name v (map strip cs) ks = assemble_special semi name v cs ks.
Proof.
  unfold assemble_special.
  rewrite ident_tail_strip, except_heads_strip.
  rewrite skipn_combine_strip, (skipn_combine cs ks 2).
  rewrite (if_tail_strip (List.length (skipn 2 cs))) by lia. reflexivity.
Qed.

Lemma assemble_strip par name v a cs ks :
  assemble str_allow true par name v a (map strip cs) ks = assemble str_allow true par name v a cs ks.
Proof.
  unfold assemble. rewrite assemble_special_strip. reflexivity.
Qed.

(* the printer model does not look at token positions *)
Lemma pp_strip t : pp (strip t) = pp t.
Proof.
  induction t as [name v i a l cs IH] using node_ind'. cbn [strip]. rewrite !pp_node, map_length.
  rewrite assemble_strip, go_strip by exact IH. reflexivity.
Qed.

(* ---------------------------------------------------------------------------------- *)
(* programs *)

Lemma prog_printer_eq b : wfP b -> pp (embed_prog b) = pp_prog b.
Proof.
  intros (Hne & W & _). destruct printer_eq as (HS & HB & _).
  destruct b as [|s [|s2 r]]; [congruence | |].
  - cbn [wfB] in W. destruct W as (Ws & _). cbn [embed_prog pp_prog]. apply HS; exact Ws.
  - cbn [embed_prog pp_prog]. destruct (HB (BCons s (BCons s2 r)) W) as (Hp & He & _).
    rewrite pp_statements by exact Hp. exact He.
Qed.

Theorem prog_idempotent b : wfP b ->
  forall l0 le epos,
  exists t', parsed (Parser.parse (source_tokens l0 le epos (pp_prog b))) = Some t' /\ pp t' = pp_prog b.
Proof.
  intros W l0 le epos. destruct (prog_roundtrip b W l0 le epos) as (t' & Hp & Hs).
  exists t'. split; [exact Hp|]. rewrite <- pp_strip, Hs. apply prog_printer_eq; exact W.
Qed.

(* the round trip in terms of the correspondence-checked printer model itself *)
Theorem prog_roundtrip_pp b : wfP b ->
  forall l0 le epos,
  exists t', parsed (Parser.parse (source_tokens l0 le epos (pp (embed_prog b)))) = Some t' /\ strip t' = embed_prog b.
Proof. intros W l0 le epos. rewrite prog_printer_eq by exact W. apply prog_roundtrip; exact W. Qed.
