(* Proofs/InterpScope3.v — C05 on the UNIFIED interpreter model, part 3: the statements
   `x := e`, `let x := e` and `func ...` of [eval] (rt_assign.go, rt_func.go) reduce to the scope
   operations characterised in Proofs/InterpScope.v; for an ARBITRARY right side e.
   The state after the right side is ok again by the invariant theorem eval_inv (InterpInv8). *)
From Coq Require Import List String NArith ZArith Bool Arith Lia ZifyNat ZifyN ZifyBool.
From Ecal Require Import Common.Bytes Common.Ast gen.Tokens Spec.ParseSpec Model.Interp Proofs.InterpShape
  Proofs.InterpInv Proofs.InterpInv8 Proofs.InterpScope Proofs.InterpScope2.
Import ListNotations.
Local Open Scope string_scope.
Local Open Scope list_scope.
Local Open Scope nat_scope.

Section Sc3.
  Context {NO : NumOps}.

  (* ---- dispatch *)
  Lemma eval_assign_eq f p v i a l cs sc is :
    eval (S f) p (Node NodeASSIGN v i a l cs) sc is = eval_assign (eval f) f p cs sc is.
  Proof. reflexivity. Qed.
  Lemma eval_let_eq f p v i a l cs sc is :
    eval (S f) p (Node NodeLET v i a l cs) sc is = eval_let (eval f) p cs sc is.
  Proof. reflexivity. Qed.
  Lemma eval_ident_eq f p v i a l cs sc is :
    eval (S f) p (Node NodeIDENTIFIER v i a l cs) sc is =
    eval_identifier (eval f) f p (Node NodeIDENTIFIER v i a l cs) sc is.
  Proof. reflexivity. Qed.
  Lemma eval_func_eq f p v i a l cs sc is :
    eval (S f) p (Node NodeFUNC v i a l cs) sc is = eval_func p (Node NodeFUNC v i a l cs) sc.
  Proof. reflexivity. Qed.

  (* a plain identifier (no access path, no call) evaluates to getValue of its name *)
  Lemma eval_plain_identifier f p x i a l sc is st :
    eval (S (S f)) p (Node NodeIDENTIFIER x i a l []) sc is st = get_value sc x st.
  Proof.
    rewrite eval_ident_eq. unfold eval_identifier. cbn [resolve subj_of sj_kids n_children n_val sj_val].
    unfold bind, ret. destruct (get_value sc x st) as [r st']. destruct r; reflexivity.
  Qed.

  Lemma bind_cong2 {A B} (m1 m2 : M A) (g1 g2 : A -> M B) st :
    m1 st = m2 st -> (forall a s, g1 a s = g2 a s) -> bind m1 g1 st = bind m2 g2 st.
  Proof. intros H1 H2. unfold bind. rewrite H1. destruct (m2 st) as [r s]. destruct r; auto. Qed.
  Lemma bind_ret_l {A B} (a : A) (g : A -> M B) st : bind (ret a) g st = g a st.
  Proof. reflexivity. Qed.

  (* `x := e`: the left side is read (its value dropped), e is evaluated, then SetValue *)
  Lemma eval_assign_plain f path av ai aa al x li la ll r sc is st :
    eval (S (S (S f))) path (Node NodeASSIGN av ai aa al [Node NodeIDENTIFIER x li la ll []; r]) sc is st =
    bind (get_value sc x)
         (fun _ => bind (eval (S (S f)) (1 :: path) r sc is)
                        (fun v => bind (set_value sc x v) (fun _ => ret VNull))) st.
  Proof.
    rewrite eval_assign_eq. cbn [eval_assign].
    apply bind_cong2; [apply eval_plain_identifier|]. intros _ s0.
    apply bind_cong2; [reflexivity|]. intros v s1.
    change (left_side path (Node NodeIDENTIFIER x li la ll []))
      with (ret (A := list (list nat * node)) [(0 :: path, Node NodeIDENTIFIER x li la ll [])]).
    rewrite bind_ret_l. reflexivity.
  Qed.

  (* `let x := e`: SetLocalValue(x, nil) (a failure ignored), x is read, e is evaluated, SetValue *)
  Lemma eval_let_plain f path av ai aa al lv li la ll x xi xa xl r sc is st :
    eval (S (S (S (S f)))) path
         (Node NodeASSIGN av ai aa al [Node NodeLET lv li la ll [Node NodeIDENTIFIER x xi xa xl []]; r]) sc is st =
    bind (attempt (set_local_nil sc x))
         (fun _ => bind (get_value sc x)
                        (fun _ => bind (eval (S (S (S f))) (1 :: path) r sc is)
                                       (fun v => bind (set_value sc x v) (fun _ => ret VNull)))) st.
  Proof.
    rewrite eval_assign_eq. cbn [eval_assign]. rewrite eval_let_eq.
    change (eval_let (eval (S (S f))) (0 :: path) [Node NodeIDENTIFIER x xi xa xl []] sc is)
      with (bind (bind (attempt (set_local_nil sc x)) (fun _ => ret tt))
                 (fun _ => eval (S (S f)) (0 :: 0 :: path) (Node NodeIDENTIFIER x xi xa xl []) sc is)).
    assert (E : forall (g : value -> M value) s,
              bind (bind (bind (attempt (set_local_nil sc x)) (fun _ => ret tt))
                         (fun _ => eval (S (S f)) (0 :: 0 :: path) (Node NodeIDENTIFIER x xi xa xl []) sc is)) g s =
              bind (attempt (set_local_nil sc x)) (fun _ => bind (get_value sc x) g) s).
    { intros g s. unfold bind at 1 2 3 4. destruct (attempt (set_local_nil sc x) s) as [r0 s0].
      destruct r0; try reflexivity. unfold ret at 1. rewrite eval_plain_identifier. reflexivity. }
    rewrite E. apply bind_cong2; [reflexivity|]. intros _ s0.
    apply bind_cong2; [reflexivity|]. intros _ s1.
    apply bind_cong2; [reflexivity|]. intros v s2.
    change (left_side path (Node NodeLET lv li la ll [Node NodeIDENTIFIER x xi xa xl []]))
      with (ret (A := list (list nat * node)) [(0 :: 0 :: path, Node NodeIDENTIFIER x xi xa xl [])]).
    rewrite bind_ret_l. reflexivity.
  Qed.

  (* ---- with the invariant *)
  Lemma sc_ok_len st s : sc_ok st s -> s < length (st_scopes st).
  Proof. exact (fun H => H). Qed.

  (* `x := e` in scope sc: e's value is written to the nearest enclosing definition of x AS SEEN
     AFTER e WAS EVALUATED, else defined in sc; nothing else changes after e *)
  Lemma eval_assign_nearest f path av ai aa al x li la ll r sc is st :
    tok r = true -> st_ok st -> sc_ok st sc -> is_ok st is -> simple_name x = true ->
    eval (S (S (S f))) path (Node NodeASSIGN av ai aa al [Node NodeIDENTIFIER x li la ll []; r]) sc is st =
    match eval (S (S f)) (1 :: path) r sc is st with
    | (ROk v, st2) => (ROk VNull, set_var st2 (assign_target st2 sc x) x v)
    | other => other
    end.
  Proof.
    intros Ht Hok Hs Hi Hx. rewrite eval_assign_plain.
    unfold bind at 1. rewrite (get_value_simple_eq st sc x (st_ok_acyclic st Hok) Hs Hx).
    destruct (eval_inv (S (S f)) (1 :: path) r sc is st Ht Hok Hs Hi) as (Hok2 & Hle & _).
    unfold bind at 1. destruct (eval (S (S f)) (1 :: path) r sc is st) as [r1 st2]. cbn [snd] in *.
    destruct r1; try reflexivity.
    unfold bind. rewrite (set_value_simple_eq st2 sc x a (st_ok_acyclic st2 Hok2) (sc_ok_le _ _ Hle _ Hs) Hx).
    reflexivity.
  Qed.

  (* `let x := e` in scope sc.  FULL statement wanted: the value of e ends up in x OF sc ITSELF.
     Proved here: x of sc is (re)defined as null BEFORE e is evaluated, whatever outer scopes
     define; after e the value goes to assign_target st2 sc x, which is sc as soon as x is still
     defined in sc then.  (No operation of the model removes a variable, but "e keeps every
     definition" is a second induction over all of eval that is not part of this file: hence the
     explicit hypothesis; it is decidable on any concrete st2.) *)
  Lemma eval_let_local_partial f path av ai aa al lv li la ll x xi xa xl r sc is st :
    tok r = true -> st_ok st -> sc_ok st sc -> is_ok st is -> simple_name x = true ->
    let st1 := set_var st sc x VNull in
    st_ok st1 /\
    eval (S (S (S (S f)))) path
         (Node NodeASSIGN av ai aa al [Node NodeLET lv li la ll [Node NodeIDENTIFIER x xi xa xl []]; r]) sc is st =
    match eval (S (S (S f))) (1 :: path) r sc is st1 with
    | (ROk v, st2) => (ROk VNull, set_var st2 (assign_target st2 sc x) x v)
    | other => other
    end /\
    (forall v st2, eval (S (S (S f))) (1 :: path) r sc is st1 = (ROk v, st2) ->
                   binding st2 sc x <> None -> assign_target st2 sc x = sc).
  Proof.
    intros Ht Hok Hs Hi Hx st1.
    assert (Hac := st_ok_acyclic st Hok).
    assert (Hnil : set_local_nil sc x st = (ROk tt, st1)) by (apply set_local_nil_eq; assumption).
    assert (Hok1 : st_ok st1).
    { pose proof (Proofs.InterpInv2.T_set_local_nil st sc x Hs Hok) as (H1 & _). rewrite Hnil in H1. exact H1. }
    assert (Hs1 : sc_ok st1 sc) by (unfold sc_ok, st1; rewrite set_var_length; exact Hs).
    assert (Hi1 : is_ok st1 is) by (unfold is_ok, st1; rewrite set_var_is; exact Hi).
    split; [exact Hok1|]. split.
    - rewrite eval_let_plain. rewrite (bind_ok _ _ _ _ _ (attempt_ok _ _ _ _ Hnil)).
      unfold bind at 1. rewrite (get_value_simple_eq st1 sc x (st_ok_acyclic st1 Hok1) Hs1 Hx).
      destruct (eval_inv (S (S (S f))) (1 :: path) r sc is st1 Ht Hok1 Hs1 Hi1) as (Hok2 & Hle & _).
      unfold bind at 1. destruct (eval (S (S (S f))) (1 :: path) r sc is st1) as [r1 st2]. cbn [snd] in *.
      destruct r1; try reflexivity.
      unfold bind. rewrite (set_value_simple_eq st2 sc x a (st_ok_acyclic st2 Hok2) (sc_ok_le _ _ Hle _ Hs1) Hx).
      reflexivity.
    - intros v st2 E B.
      destruct (eval_inv (S (S (S f))) (1 :: path) r sc is st1 Ht Hok1 Hs1 Hi1) as (Hok2 & Hle & _).
      rewrite E in Hok2, Hle. cbn [snd] in *.
      apply assign_target_here; [apply st_ok_acyclic; exact Hok2 | exact (sc_ok_le _ _ Hle _ Hs1) | exact B].
  Qed.

  (* a function declaration stores the scope it is evaluated in as the closure's declaration
     scope; a named one is assigned like `name := <function>` *)
  Lemma eval_func_closure f path v i a l h cs sc is st :
    eval (S f) path (Node NodeFUNC v i a l (h :: cs)) sc is st =
    let n := Node NodeFUNC v i a l (h :: cs) in
    let name := if is_name h NodeIDENTIFIER then n_val h else [] in
    let id := length (st_funs st) in
    let st1 := mkSt (st_scopes st) (st_arrs st) (st_maps st) (st_funs st ++ [mkClo name n path sc]) (st_is st) in
    match name with
    | [] => (ROk (VFun id), st1)
    | _ => match attempt (set_value sc name (VFun id)) st1 with
           | (ROk _, st2) => (ROk (VFun id), st2)
           | (RErr e, st2) => (RErr e, st2)
           | (RPanic s, st2) => (RPanic s, st2)
           | (RFuel, st2) => (RFuel, st2)
           | (RUnmod w, st2) => (RUnmod w, st2)
           | (RInvalid w, st2) => (RInvalid w, st2)
           end
    end.
  Proof.
    rewrite eval_func_eq. unfold eval_func. cbn [n_children]. cbv zeta.
    unfold alloc_fun. unfold bind at 1 2 3. unfold get_st, put_st, ret. cbv beta iota.
    destruct (if is_name h NodeIDENTIFIER then n_val h else []) as [|c0 nm]; [reflexivity|].
    unfold bind. destruct (attempt _ _) as [r1 st2]. destruct r1; reflexivity.
  Qed.
  (* ================================================================ what is NOT visible *)
  (* a name resolves only to a scope on the own parent chain: to the scope itself or an ancestor,
     never to a scope created later (larger index), a sibling, a child or a call frame *)
  Lemma resolves_on_chain st s x t v : scopes_acyclic st ->
    lookup_chain st x (scope_chain st s) = Some (t, v) ->
    In t (scope_chain st s) /\ t <= s /\ binding st t x = Some v.
  Proof.
    intros Hac E. apply lookup_chain_in in E. destruct E as [I B].
    destruct (scope_chain_bound st s t Hac I). auto.
  Qed.

  (* writing a variable of a scope t that is not on the chain of s2 changes no read from s2 *)
  Lemma write_invisible_outside st t x v s2 y :
    scopes_acyclic st -> t < length (st_scopes st) -> s2 < length (st_scopes st) -> simple_name y = true ->
    ~ In t (scope_chain st s2) ->
    get_value s2 y (set_var st t x v) = (fst (get_value s2 y st), set_var st t x v).
  Proof.
    intros Hac Ht Hs2 Hy Hn.
    destruct (read_after_write st t x v s2 y Hac Ht Hs2 Hy) as (R1 & _ & R3 & R4).
    rewrite (surjective_pairing (get_value s2 y (set_var st t x v))). rewrite R4. f_equal.
    destruct (bytes_eqb_spec x y) as [E|N]; [|apply R1; exact N].
    apply R3; [exact E|]. intros (pre & post & Ec & _). apply Hn. rewrite Ec. apply in_or_app. right. left. reflexivity.
  Qed.

  (* the variables of a call frame are invisible from every scope that existed when the call was
     made (the caller's included): every simple name reads there as if the frame did not exist *)
  Lemma frame_invisible st f vars s y :
    scopes_acyclic st -> cl_scope f < length (st_scopes st) -> s < length (st_scopes st) -> simple_name y = true ->
    get_value s y (frame_state st f vars) = (fst (get_value s y st), frame_state st f vars).
  Proof.
    intros Hac Hc Hs Hy.
    rewrite (get_value_simple_eq _ s y (frame_state_acyclic st f vars Hac Hc))
      by (try exact Hy; unfold frame_state; cbn; rewrite app_length; cbn; lia).
    rewrite (get_value_simple_eq st s y Hac Hs Hy). cbn [fst]. unfold scope_chain.
    rewrite (chain_from_agree (length (st_scopes st)) st _ Hac (frame_state_agree st f vars) _ _ Hs).
    rewrite (lookup_chain_agree (length (st_scopes st)) st _ y _ (frame_state_agree st f vars)); [reflexivity|].
    rewrite Forall_forall. intros j Hj. apply (scope_chain_bound st s j Hac Hj).
  Qed.
  (* ================================================================ the statements as Props/C05_interp.v quotes them *)
  Lemma scope_chain_spec st s : scopes_acyclic st -> s < length (st_scopes st) ->
    scope_chain st s = s :: match parent_of st s with Some p => scope_chain st p | None => [] end /\
    (forall j, In j (scope_chain st s) -> j <= s /\ j < length (st_scopes st)) /\
    (forall d, parent_of st (last (scope_chain st s) d) = None).
  Proof.
    intros Hac Hs. split; [apply scope_chain_unfold; assumption|]. split.
    - intros j. apply scope_chain_bound. exact Hac.
    - intros d. apply scope_chain_last; assumption.
  Qed.

  Lemma lookup_chain_spec st x c :
    (forall t v, lookup_chain st x c = Some (t, v) <->
                 exists pre post, c = pre ++ t :: post /\ Forall (fun j => binding st j x = None) pre /\
                                  binding st t x = Some v) /\
    (lookup_chain st x c = None <-> Forall (fun j => binding st j x = None) c).
  Proof. split; [intros t v; apply lookup_chain_some | apply lookup_chain_none]. Qed.

  Lemma lookup_nearest st s x : scopes_acyclic st -> s < length (st_scopes st) -> simple_name x = true ->
    lookup_simple s x st = (ROk (found_of (lookup_chain st x (scope_chain st s))), st) /\
    get_value s x st = (ROk (value_of (lookup_chain st x (scope_chain st s))), st).
  Proof. intros Hac Hs Hx. split; [apply lookup_simple_eq | apply get_value_simple_eq]; assumption. Qed.

  Lemma set_var_frame st t x v : t < length (st_scopes st) ->
    let st' := set_var st t x v in
    (forall j y, binding st' j y = if (Nat.eqb j t && bytes_eqb x y)%bool then Some v else binding st j y) /\
    (forall j, scope_shape st' j = scope_shape st j) /\
    (forall s, scope_chain st' s = scope_chain st s) /\
    length (st_scopes st') = length (st_scopes st) /\
    st_arrs st' = st_arrs st /\ st_maps st' = st_maps st /\ st_funs st' = st_funs st /\ st_is st' = st_is st /\
    (scopes_acyclic st -> scopes_acyclic st').
  Proof.
    intros Ht st'. split; [intros j y; apply binding_set_var; exact Ht|].
    split; [intros j; apply set_var_shape|]. split; [intros s; apply scope_chain_set_var|].
    split; [apply set_var_length|]. split; [apply set_var_arrs|]. split; [apply set_var_maps|].
    split; [apply set_var_funs|]. split; [apply set_var_is|apply set_var_acyclic].
  Qed.

  Lemma assign_nearest_or_define_here st s x v :
    scopes_acyclic st -> s < length (st_scopes st) -> simple_name x = true ->
    let t := assign_target st s x in
    set_value s x v st = (ROk tt, set_var st t x v) /\
    t < length (st_scopes st) /\
    ((exists j, In j (scope_chain st s) /\ binding st j x <> None) ->
     exists pre post, scope_chain st s = pre ++ t :: post /\
                      Forall (fun j => binding st j x = None) pre /\ binding st t x <> None) /\
    ((forall j, In j (scope_chain st s) -> binding st j x = None) -> t = s).
  Proof.
    intros Hac Hs Hx t. split; [apply set_value_simple_eq; assumption|].
    split; [apply assign_target_alloc; assumption|]. apply assign_target_spec; assumption.
  Qed.

  Lemma let_defines_locally st s x v :
    scopes_acyclic st -> s < length (st_scopes st) -> simple_name x = true ->
    set_local_nil s x st = (ROk tt, set_var st s x VNull) /\
    bind (set_local_nil s x) (fun _ => set_value s x v) st = (ROk tt, set_var st s x v) /\
    (forall st2, scopes_acyclic st2 -> s < length (st_scopes st2) -> binding st2 s x <> None ->
                 set_value s x v st2 = (ROk tt, set_var st2 s x v)).
  Proof.
    intros Hac Hs Hx. split; [apply set_local_nil_eq; assumption|].
    split; [apply let_then_assign_eq; assumption|].
    intros st2 Hac2 Hs2 B. rewrite (set_value_simple_eq st2 s x v Hac2 Hs2 Hx).
    rewrite assign_target_here; auto.
  Qed.

  Lemma frame_state_spec st f vars :
    scopes_acyclic st -> cl_scope f < length (st_scopes st) ->
    let fvs := length (st_scopes st) in
    let st' := frame_state st f vars in
    parent_of st' fvs = Some (cl_scope f) /\
    vars_of st' fvs = vars /\
    scope_chain st' fvs = fvs :: scope_chain st (cl_scope f) /\
    (forall j, j < fvs -> nth_error (st_scopes st') j = nth_error (st_scopes st) j) /\
    st_arrs st' = st_arrs st /\ st_maps st' = st_maps st /\ st_funs st' = st_funs st /\
    scopes_acyclic st'.
  Proof.
    intros Hac Hc fvs st'. split.
    { unfold parent_of, st', frame_state, fvs. cbn [st_scopes]. rewrite nth_snoc_new. reflexivity. }
    split; [apply frame_state_vars|]. split; [apply frame_state_chain; assumption|].
    split; [apply frame_state_agree|]. repeat split; try reflexivity. apply frame_state_acyclic; assumption.
  Qed.
End Sc3.
