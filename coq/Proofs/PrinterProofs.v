(* Proofs/PrinterProofs.v — C08 lemmas: the Pratt parser inverts the printer on every
   expression tree (key lemma by structural induction, with the PRINTER's bracket predicate),
   idempotence, string literal round trip, refutation witnesses for the unrepaired rules. *)
From Coq Require Import List String NArith Bool Arith Lia.
From Ecal Require Import Common.Bytes Common.Ast gen.Tokens gen.Grammar Model.Printer.
Import ListNotations.
Local Open Scope string_scope.
Local Open Scope nat_scope.

Arguments classify_nc : simpl never.
Arguments binding : simpl never.
Arguments name_of : simpl never.
Arguments is_infix : simpl never.
Arguments is_prefix : simpl never.
Arguments is_term : simpl never.
Arguments is_ident : simpl never.
Arguments is_inner : simpl never.
Arguments eligible : simpl never.
Arguments exempt : simpl never.
Arguments starts_access : simpl never.
Arguments has_value : simpl never.

(* ---------------------------------------------------------------------------------- *)
(* Facts about the regenerated grammar table, checked by computation *)

Definition opt_is (a : option nat) (b : nat) : bool :=
  match a with Some x => Nat.eqb x b | None => false end.

Definition big : nat := 1000.

Definition entry_check (e : grammar_entry) : bool :=
  (ge_binding e + 20 <=? big) &&
  implb (String.eqb (ge_left e) "ldInfix")
        ((0 <? ge_binding e) && negb (starts_access (ge_token e)) &&
         opt_is (infix_of (ge_name e)) (ge_token e)) &&
  implb (String.eqb (ge_null e) "ndPrefix") (opt_is (prefix_of (ge_name e)) (ge_token e)) &&
  implb (String.eqb (ge_null e) "ndTerm" || String.eqb (ge_null e) "ndIdentifier")
        (opt_is (term_of (ge_name e)) (ge_token e)).

Lemma table_ok : forallb entry_check grammar_table = true.
Proof. vm_compute. reflexivity. Qed.

Lemma entry_of_spec id e : entry_of id = Some e -> ge_token e = id /\ entry_check e = true.
Proof.
  unfold entry_of. intros H. apply find_some in H as [Hin Heq].
  apply Nat.eqb_eq in Heq. split; [exact Heq|].
  pose proof table_ok as Ht. rewrite forallb_forall in Ht. apply Ht; exact Hin.
Qed.

Lemma opt_is_eq a b : opt_is a b = true -> a = Some b.
Proof. destruct a; simpl; [intros H; apply Nat.eqb_eq in H; congruence | discriminate]. Qed.

Lemma binding_le_big id : binding id + 20 <= big.
Proof.
  unfold binding. destruct (entry_of id) as [e|] eqn:He; [|unfold big; lia].
  apply entry_of_spec in He as [_ Hc]. unfold entry_check in Hc.
  rewrite !andb_true_iff in Hc. destruct Hc as [[[Hb _] _] _]. apply Nat.leb_le in Hb. exact Hb.
Qed.

Lemma infix_facts id : is_infix id = true ->
  0 < binding id /\ starts_access id = false /\ infix_of (name_of id) = Some id.
Proof.
  unfold is_infix, binding, name_of. destruct (entry_of id) as [e|] eqn:He; [|discriminate].
  intros Hl. apply entry_of_spec in He as [Ht Hc]. unfold entry_check in Hc.
  rewrite !andb_true_iff in Hc. destruct Hc as [[[_ Hi] _] _]. rewrite Hl in Hi. simpl in Hi.
  rewrite !andb_true_iff in Hi. destruct Hi as [[Hb Ha] Ho]. rewrite Ht in *.
  apply Nat.ltb_lt in Hb. apply negb_true_iff in Ha. apply opt_is_eq in Ho. auto.
Qed.

Lemma prefix_facts id : is_prefix id = true -> prefix_of (name_of id) = Some id.
Proof.
  unfold is_prefix, null_of, name_of. destruct (entry_of id) as [e|] eqn:He; [|discriminate].
  intros Hl. apply entry_of_spec in He as [Ht Hc]. unfold entry_check in Hc.
  rewrite !andb_true_iff in Hc. destruct Hc as [[_ Hi] _]. rewrite Hl in Hi. simpl in Hi.
  rewrite Ht in Hi. apply opt_is_eq in Hi. exact Hi.
Qed.

Lemma atom_facts id : is_term id || is_ident id = true -> term_of (name_of id) = Some id.
Proof.
  unfold is_term, is_ident, null_of, name_of. destruct (entry_of id) as [e|] eqn:He; [|discriminate].
  intros Hl. apply entry_of_spec in He as [Ht Hc]. unfold entry_check in Hc.
  rewrite !andb_true_iff in Hc. destruct Hc as [_ Hi]. rewrite Hl in Hi. simpl in Hi.
  rewrite Ht in Hi. apply opt_is_eq in Hi. exact Hi.
Qed.

Lemma classify_bin id : is_infix id = true -> classify_nc (name_of id) 2 = CBin id.
Proof. intros H. apply infix_facts in H as (_ & _ & H2). unfold classify_nc. rewrite H2. reflexivity. Qed.
Lemma classify_pre id : is_prefix id = true -> classify_nc (name_of id) 1 = CPre id.
Proof. intros H. apply prefix_facts in H. unfold classify_nc. rewrite H. reflexivity. Qed.
Lemma classify_atom id : is_term id || is_ident id = true -> classify_nc (name_of id) 0 = CAtom id.
Proof. intros H. apply atom_facts in H. unfold classify_nc. rewrite H. reflexivity. Qed.

Lemma eligible_infix id : is_infix id = true -> eligible (name_of id) = true.
Proof. intros H. apply infix_facts in H as (_ & _ & H2). unfold eligible. rewrite H2. reflexivity. Qed.

(* denotation kinds exclude each other: they are read from one field *)
Lemma null_kinds id :
  (is_prefix id = true -> is_term id = false /\ is_ident id = false) /\
  (is_ident id = true -> is_term id = false) /\
  (is_inner id = true -> is_term id = false /\ is_ident id = false /\ is_prefix id = false).
Proof.
  unfold is_prefix, is_term, is_ident, is_inner.
  split; [|split]; intros H0; apply String.eqb_eq in H0; rewrite H0; repeat split; reflexivity.
Qed.

Lemma lparen_inner : is_inner TokenLPAREN = true. Proof. vm_compute. reflexivity. Qed.
Lemma rparen_binding : binding TokenRPAREN = 0. Proof. vm_compute. reflexivity. Qed.
Lemma rparen_access : starts_access TokenRPAREN = false. Proof. vm_compute. reflexivity. Qed.
Lemma eof_binding : binding TokenEOF = 0. Proof. vm_compute. reflexivity. Qed.
Lemma eof_access : starts_access TokenEOF = false. Proof. vm_compute. reflexivity. Qed.

(* ---------------------------------------------------------------------------------- *)
(* The expression trees the theorem quantifies over: every infix operator of the table,
   every bracket-eligible prefix operator, every terminal; any nesting. *)

Definition exempt_at (p : nat) (r : node) : bool :=
  match classify r with CBin c => exempt p c | _ => false end.

Inductive wf_expr : node -> Prop :=
| WfAtom id v i a ln :
    is_term id || is_ident id = true ->
    (Nat.eqb id TokenSTRING = true -> str_allow v a = a) ->
    wf_expr (Node (name_of id) v i a ln [])
| WfBin id v i a ln l r :
    is_infix id = true -> wf_expr l -> wf_expr r -> exempt_at id r = false ->
    wf_expr (Node (name_of id) v i a ln [l; r])
| WfPre id v i a ln x :
    is_prefix id = true -> eligible (name_of id) = true -> wf_expr x ->
    wf_expr (Node (name_of id) v i a ln [x]).

Definition wrap (b : bool) (k : list item) : list item :=
  if b then kw TokenLPAREN :: k ++ [kw TokenRPAREN] else k.

Lemma pp_bin name v i a ln l r :
  pp (Node name v i a ln [l; r]) =
  assemble str_allow true (classify_nc name 2) name v a [l; r]
           [wrap (needs (classify_nc name 2) 0 l) (pp l); wrap (needs (classify_nc name 2) 1 r) (pp r)].
Proof. reflexivity. Qed.
Lemma pp_pre name v i a ln x :
  pp (Node name v i a ln [x]) =
  assemble str_allow true (classify_nc name 1) name v a [x] [wrap (needs (classify_nc name 1) 0 x) (pp x)].
Proof. reflexivity. Qed.
Lemma pp_leaf name v i a ln :
  pp (Node name v i a ln []) = assemble str_allow true (classify_nc name 0) name v a [] [].
Proof. reflexivity. Qed.

(* the binding below which the expression is read completely, and the binding above which
   a following operator would be pulled into its right edge *)
Definition enter (rb : nat) (t : node) : Prop :=
  match classify t with CBin id => rb < binding id | _ => True end.
Definition redge (t : node) : nat :=
  match classify t with CBin id => binding id | CPre id => binding id + 20 | _ => big end.

Definition stop (rb : nat) (ts : list item) : Prop :=
  match ts with
  | T id _ _ :: _ => binding id <= rb /\ starts_access id = false
  | _ => True
  end.

Lemma stop_mono a b ts : stop a ts -> a <= b -> stop b ts.
Proof. destruct ts as [|[id v al|] ts]; simpl; auto. intros [H1 H2] H; split; [lia|auto]. Qed.

Lemma loop_stop f rb left ts : stop rb ts -> 1 <= f -> loop f rb left ts = Some (left, ts).
Proof.
  intros Hs Hf. destruct f as [|f]; [lia|]. simpl.
  destruct ts as [|[id v al|] ts]; auto. simpl in Hs. destruct Hs as [Hb _].
  destruct (Nat.ltb_spec rb (binding id)); [lia|reflexivity].
Qed.

Definition KeyStmt (t : node) : Prop :=
  forall rb ts res,
    enter rb t -> stop (redge t) ts ->
    (forall f, length ts + 1 <= f -> loop f rb (erase t) ts = res) ->
    forall f, length (pp t ++ ts) + 1 <= f -> run f rb (pp t ++ ts) = res.

Lemma enter0 t : wf_expr t -> enter 0 t.
Proof.
  intros H. destruct H; unfold enter, classify; simpl.
  - rewrite classify_atom by assumption. exact I.
  - rewrite classify_bin by assumption. apply infix_facts in H as [H _]. exact H.
  - rewrite classify_pre by assumption. exact I.
Qed.

(* a (possibly parenthesised) operand *)
Lemma wrapped c : wf_expr c -> KeyStmt c ->
  forall (b : bool) rb ts res,
    (b = false -> enter rb c /\ stop (redge c) ts) ->
    (forall f, length ts + 1 <= f -> loop f rb (erase c) ts = res) ->
    forall f, length (wrap b (pp c) ++ ts) + 1 <= f -> run f rb (wrap b (pp c) ++ ts) = res.
Proof.
  intros Hwf Hk b rb ts res Hb Hcont f Hf. destruct b; unfold wrap in *.
  - destruct f as [|f]; [lia|].
    cbn [app] in *. rewrite <- app_assoc in *. cbn [app] in *. cbn [length] in Hf.
    unfold kw at 1. cbn [run].
    destruct (null_kinds TokenLPAREN) as (_ & _ & Hi). destruct (Hi lparen_inner) as (H1 & H2 & H3).
    rewrite H1, H2, H3, lparen_inner.
    rewrite (Hk 0 (kw TokenRPAREN :: ts) (Some (erase c, kw TokenRPAREN :: ts))).
    + unfold kw. rewrite Nat.eqb_refl. apply Hcont.
      rewrite app_length in Hf. cbn [length] in Hf. lia.
    + apply enter0; assumption.
    + unfold kw. cbn [stop]. rewrite rparen_binding, rparen_access. split; [lia|reflexivity].
    + intros f' Hf'. apply loop_stop; [|lia]. unfold kw. cbn [stop].
      rewrite rparen_binding, rparen_access. split; [lia|reflexivity].
    + lia.
  - destruct (Hb eq_refl) as [He Hs]. apply Hk; assumption.
Qed.

Lemma erase_bin id v i a ln l r : is_infix id = true ->
  erase (Node (name_of id) v i a ln [l; r]) = mk id [erase l; erase r].
Proof. intros H. simpl. rewrite classify_bin by assumption. reflexivity. Qed.
Lemma erase_pre id v i a ln x : is_prefix id = true ->
  erase (Node (name_of id) v i a ln [x]) = mk id [erase x].
Proof. intros H. simpl. rewrite classify_pre by assumption. reflexivity. Qed.
Lemma erase_atom id v i a ln : is_term id || is_ident id = true ->
  erase (Node (name_of id) v i a ln []) =
  Node (name_of id) (if has_value id then v else []) (Nat.eqb id TokenIDENTIFIER)
       (if Nat.eqb id TokenSTRING then a else false) 0 [].
Proof. intros H. simpl. rewrite classify_atom by assumption. reflexivity. Qed.

(* what "no brackets" tells about an operand *)
Lemma cls_of_wf c : wf_expr c ->
  (exists id, classify c = CAtom id) \/
  (exists id, classify c = CBin id /\ eligible (n_name c) = true) \/
  (exists id, classify c = CPre id /\ eligible (n_name c) = true).
Proof.
  intros H. destruct H; unfold classify; simpl.
  - left. exists id. apply classify_atom; assumption.
  - right; left. exists id. split; [apply classify_bin | apply eligible_infix]; assumption.
  - right; right. exists id. split; [apply classify_pre|]; assumption.
Qed.

Lemma left_ok id l rb : wf_expr l -> needs (CBin id) 0 l = false -> rb < binding id ->
  enter rb l /\ binding id <= redge l.
Proof.
  intros Hwf Hn Hrb. unfold enter, redge, needs in *.
  destruct (cls_of_wf l Hwf) as [[c Hc]|[[c [Hc He]]|[c [Hc He]]]]; rewrite Hc in *.
  - split; [exact I|]. pose proof (binding_le_big id). lia.
  - rewrite He in Hn. apply Nat.ltb_ge in Hn. lia.
  - rewrite He in Hn. simpl in Hn. apply Nat.ltb_ge in Hn. split; [exact I|lia].
Qed.

Lemma right_ok id r : wf_expr r -> exempt_at id r = false -> needs (CBin id) 1 r = false ->
  enter (binding id) r /\ binding id <= redge r.
Proof.
  intros Hwf Hex Hn. unfold enter, redge, needs, exempt_at in *.
  destruct (cls_of_wf r Hwf) as [[c Hc]|[[c [Hc He]]|[c [Hc He]]]]; rewrite Hc in *.
  - split; [exact I|]. pose proof (binding_le_big id). lia.
  - rewrite He, Hex in Hn. apply Nat.leb_gt in Hn. lia.
  - rewrite He in Hn. simpl in Hn. apply Nat.ltb_ge in Hn. split; [exact I|lia].
Qed.

Lemma pre_ok id x : wf_expr x -> needs (CPre id) 0 x = false ->
  enter (binding id + 20) x /\ binding id + 20 <= redge x.
Proof.
  intros Hwf Hn. unfold enter, redge, needs in *.
  destruct (cls_of_wf x Hwf) as [[c Hc]|[[c [Hc He]]|[c [Hc He]]]]; rewrite Hc in *.
  - split; [exact I|]. pose proof (binding_le_big id). lia.
  - rewrite He in Hn. simpl in Hn. apply Nat.leb_gt in Hn. lia.
  - rewrite He in Hn. simpl in Hn. apply Nat.ltb_ge in Hn. split; [exact I|lia].
Qed.

Lemma key t : wf_expr t -> KeyStmt t.
Proof.
  induction 1 as [id v i a ln Ha Hs | id v i a ln l r Hi Hl IHl Hr IHr He | id v i a ln x Hp Hel Hx IHx];
    intros rb ts res Hen Hst Hcont f Hf.
  - (* terminal *)
    assert (Hleaf : leaf id (if has_value id then v else [])
                         (if Nat.eqb id TokenSTRING then str_allow v a else false)
                    = erase (Node (name_of id) v i a ln [])).
    { rewrite erase_atom by assumption. unfold leaf.
      destruct (has_value id); destruct (Nat.eqb id TokenSTRING) eqn:E; try reflexivity;
        rewrite (Hs eq_refl); reflexivity. }
    unfold redge, classify in Hst. simpl in Hst. rewrite classify_atom in Hst by assumption.
    rewrite pp_leaf, classify_atom in * by assumption. simpl assemble in *.
    destruct f as [|f]; [simpl in Hf; lia|].
    simpl app in *. simpl run. rewrite Hleaf. simpl in Hf.
    destruct (is_term id) eqn:Et.
    + apply Hcont. lia.
    + simpl in Ha. rewrite Ha.
      destruct ts as [|[id2 v2 a2|] ts]; try (apply Hcont; cbn [length] in *; lia).
      simpl in Hst. destruct Hst as [_ Hacc]. rewrite Hacc. apply Hcont. cbn [length] in *; lia.
  - (* infix *)
    assert (Hc : classify (Node (name_of id) v i a ln [l; r]) = CBin id)
      by (unfold classify; simpl; apply classify_bin; assumption).
    unfold enter in Hen. unfold redge in Hst. rewrite Hc in Hen, Hst.
    destruct (infix_facts id Hi) as (Hpos & Hacc & _).
    rewrite pp_bin in *. rewrite classify_bin in * by assumption. simpl assemble in *.
    rewrite <- app_assoc in *. simpl app in *.
    set (bl := needs (CBin id) 0 l) in *. set (br := needs (CBin id) 1 r) in *.
    apply (wrapped l Hl IHl bl rb); [| |exact Hf].
    + intros Hbl. destruct (left_ok id l rb Hl Hbl Hen) as [He1 He2].
      split; [exact He1|]. simpl. unfold kw. split; [lia|exact Hacc].
    + intros f1 Hf1. destruct f1 as [|f1]; [lia|]. simpl in Hf1.
      unfold kw at 1. simpl loop.
      destruct (Nat.ltb_spec rb (binding id)); [|lia]. rewrite Hi.
      rewrite (wrapped r Hr IHr br (binding id) ts (Some (erase r, ts))).
      * rewrite <- (erase_bin id v i a ln l r Hi). apply Hcont.
        rewrite app_length in Hf1. lia.
      * intros Hbr. destruct (right_ok id r Hr He Hbr) as [He1 He2].
        split; [exact He1|]. eapply stop_mono; eauto.
      * intros f2 Hf2. apply loop_stop; [exact Hst|lia].
      * lia.
  - (* prefix *)
    assert (Hc : classify (Node (name_of id) v i a ln [x]) = CPre id)
      by (unfold classify; simpl; apply classify_pre; assumption).
    unfold redge in Hst. rewrite Hc in Hst.
    rewrite pp_pre in *. rewrite classify_pre in * by assumption. simpl assemble in *.
    set (bx := needs (CPre id) 0 x) in *.
    destruct f as [|f]; [simpl in Hf; lia|].
    simpl app in *. unfold kw at 1. simpl run.
    destruct (null_kinds id) as (Hk1 & _ & _). destruct (Hk1 Hp) as [Ht Hid].
    rewrite Ht, Hid, Hp. simpl in Hf.
    rewrite (wrapped x Hx IHx bx (binding id + 20) ts (Some (erase x, ts))).
    + rewrite <- (erase_pre id v i a ln x Hp). apply Hcont.
      rewrite app_length in Hf. lia.
    + intros Hbx. destruct (pre_ok id x Hx Hbx) as [He1 He2].
      split; [exact He1|]. eapply stop_mono; eauto.
    + intros f2 Hf2. apply loop_stop; [exact Hst|lia].
    + lia.
Qed.

(* ---------------------------------------------------------------------------------- *)
(* Round trip and idempotence *)

Lemma roundtrip t : wf_expr t -> parse_expr (pp t) = Some (erase t).
Proof.
  intros Hwf. unfold parse_expr.
  rewrite (key t Hwf 0 [eof] (Some (erase t, [eof]))).
  - unfold eof. rewrite Nat.eqb_refl. reflexivity.
  - apply enter0; assumption.
  - simpl. rewrite eof_binding, eof_access. split; [lia|reflexivity].
  - intros f Hf. apply loop_stop; [|lia]. simpl. rewrite eof_binding, eof_access. split; [lia|reflexivity].
  - rewrite app_length. simpl. lia.
Qed.

Lemma erase_name t : n_name (erase t) = n_name t.
Proof. destruct t as [name v i a ln cs]. simpl. destruct (classify_nc name (length cs)); reflexivity. Qed.

Lemma erase_classify t : wf_expr t -> classify (erase t) = classify t.
Proof.
  intros H. destruct H.
  - rewrite erase_atom by assumption. reflexivity.
  - rewrite erase_bin by assumption. reflexivity.
  - rewrite erase_pre by assumption. reflexivity.
Qed.

Lemma needs_erase par idx c : wf_expr c -> needs par idx (erase c) = needs par idx c.
Proof. intros H. unfold needs. rewrite erase_name, erase_classify by assumption. reflexivity. Qed.

Lemma str_allow_idem v a : str_allow v (str_allow v a) = str_allow v a.
Proof. unfold str_allow. destruct a, (raw_printable v); reflexivity. Qed.

Lemma pp_erase t : wf_expr t -> pp (erase t) = pp t.
Proof.
  induction 1 as [id v i a ln Ha Hs | id v i a ln l r Hi Hl IHl Hr IHr He | id v i a ln x Hp Hel Hx IHx].
  - rewrite erase_atom by assumption. rewrite !pp_leaf, classify_atom by assumption. simpl.
    destruct (Nat.eqb_spec id TokenSTRING) as [->|E].
    + change (has_value TokenSTRING) with true. cbv iota. rewrite (Hs eq_refl). reflexivity.
    + destruct (has_value id); reflexivity.
  - rewrite erase_bin by assumption. unfold mk. rewrite !pp_bin.
    rewrite !needs_erase, IHl, IHr by assumption. rewrite classify_bin by assumption. reflexivity.
  - rewrite erase_pre by assumption. unfold mk. rewrite !pp_pre.
    rewrite !needs_erase, IHx by assumption. rewrite classify_pre by assumption. reflexivity.
Qed.

Lemma idempotent t : wf_expr t -> exists t', parse_expr (pp t) = Some t' /\ pp t' = pp t.
Proof. intros H. exists (erase t). split; [apply roundtrip | apply pp_erase]; assumption. Qed.

Lemma erase_idem t : wf_expr t -> erase (erase t) = erase t.
Proof.
  induction 1 as [id v i a ln Ha Hs | id v i a ln l r Hi Hl IHl Hr IHr He | id v i a ln x Hp Hel Hx IHx].
  - rewrite erase_atom by assumption. rewrite erase_atom by assumption.
    destruct (has_value id); destruct (Nat.eqb id TokenSTRING); reflexivity.
  - rewrite erase_bin by assumption. unfold mk. rewrite erase_bin by assumption.
    unfold mk. rewrite IHl, IHr. reflexivity.
  - rewrite erase_pre by assumption. unfold mk. rewrite erase_pre by assumption.
    unfold mk. rewrite IHx. reflexivity.
Qed.

(* ---------------------------------------------------------------------------------- *)
(* String literals *)

Local Close Scope string_scope.
Local Open Scope N_scope.

Lemma scan_unit b s :
  scan_esc 34 false (esc_byte b ++ s) =
  match scan_esc 34 false s with Some (v, r) => Some (esc_byte b ++ v, r) | None => None end.
Proof.
  unfold esc_byte.
  destruct (N.eqb_spec b 34) as [->|H34];
    [cbn [app scan_esc N.eqb Pos.eqb andb negb]; destruct (scan_esc 34 false s) as [[? ?]|]; reflexivity|].
  destruct (N.eqb_spec b 92) as [->|H92];
    [cbn [app scan_esc N.eqb Pos.eqb andb negb]; destruct (scan_esc 34 false s) as [[? ?]|]; reflexivity|].
  destruct (N.eqb_spec b 10) as [->|H10];
    [cbn [app scan_esc N.eqb Pos.eqb andb negb]; destruct (scan_esc 34 false s) as [[? ?]|]; reflexivity|].
  destruct (N.eqb_spec b 9) as [->|H9];
    [cbn [app scan_esc N.eqb Pos.eqb andb negb]; destruct (scan_esc 34 false s) as [[? ?]|]; reflexivity|].
  cbn [app scan_esc].
  destruct (N.eqb_spec b 34); [contradiction|].
  destruct (N.eqb_spec b 92); [contradiction|].
  cbn [andb negb]. destruct (scan_esc 34 false s) as [[? ?]|]; reflexivity.
Qed.

Lemma scan_quote v rest :
  scan_esc 34 false (flat_map esc_byte v ++ 34 :: rest) = Some (flat_map esc_byte v, rest).
Proof.
  induction v as [|b v IH]; cbn [flat_map].
  - reflexivity.
  - rewrite <- app_assoc, scan_unit, IH. reflexivity.
Qed.

Lemma unquote_unit b s f :
  unquote (S f) (esc_byte b ++ s) =
  match unquote f s with Some v => Some (b :: v) | None => None end.
Proof.
  unfold esc_byte.
  destruct (N.eqb_spec b 34) as [->|H34];
    [cbn [app unquote N.eqb Pos.eqb]; destruct (unquote f s); reflexivity|].
  destruct (N.eqb_spec b 92) as [->|H92];
    [cbn [app unquote N.eqb Pos.eqb]; destruct (unquote f s); reflexivity|].
  destruct (N.eqb_spec b 10) as [->|H10];
    [cbn [app unquote N.eqb Pos.eqb]; destruct (unquote f s); reflexivity|].
  destruct (N.eqb_spec b 9) as [->|H9];
    [cbn [app unquote N.eqb Pos.eqb]; destruct (unquote f s); reflexivity|].
  cbn [app unquote].
  destruct (N.eqb_spec b 92); [contradiction|].
  destruct (N.eqb_spec b 34); [contradiction|].
  destruct (N.eqb_spec b 10); [contradiction|].
  cbn [orb]. destruct (unquote f s); reflexivity.
Qed.

Lemma unquote_quote v : forall f, (length v < f)%nat -> unquote f (flat_map esc_byte v) = Some v.
Proof.
  induction v as [|b v IH]; intros f Hf.
  - destruct f; [simpl in Hf; lia|reflexivity].
  - destruct f as [|f]; [lia|]. cbn [flat_map]. rewrite unquote_unit, IH; [reflexivity|].
    cbn [length] in Hf. lia.
Qed.

Lemma esc_byte_len b : (1 <= length (esc_byte b))%nat.
Proof.
  unfold esc_byte. destruct (N.eqb b 34); [simpl; lia|]. destruct (N.eqb b 92); [simpl; lia|].
  destruct (N.eqb b 10); [simpl; lia|]. destruct (N.eqb b 9); simpl; lia.
Qed.

Lemma flat_map_esc_len v : (length v <= length (flat_map esc_byte v))%nat.
Proof.
  induction v as [|b v IH]; cbn [flat_map length]; [lia|].
  rewrite app_length. pose proof (esc_byte_len b). lia.
Qed.

Lemma lex_quoted v rest : lex_literal (quote v ++ rest) = Some (v, true, rest).
Proof.
  unfold lex_literal, lex_literal_gen, quote. cbn [app]. cbn [N.eqb Pos.eqb orb].
  rewrite <- app_assoc. cbn [app]. rewrite scan_quote.
  cbn [N.eqb Pos.eqb]. rewrite unquote_quote by (pose proof (flat_map_esc_len v); lia). reflexivity.
Qed.

Lemma scan_raw_app q v rest : has_byte q v = false -> scan_raw q (v ++ q :: rest) = Some (v, rest).
Proof.
  induction v as [|b v IH]; simpl; intros H.
  - rewrite N.eqb_refl. reflexivity.
  - apply orb_false_iff in H as [H1 H2]. rewrite H1, (IH H2). reflexivity.
Qed.

Lemma lex_printed allow v rest :
  lex_literal (print_literal allow v ++ rest) = Some (v, str_allow v allow, rest).
Proof.
  unfold print_literal, str_allow, raw_printable. destruct allow; [apply lex_quoted|].
  destruct (raw_dq_ok v) eqn:Hd.
  - unfold raw_dq_ok in Hd. rewrite !andb_true_iff, !negb_true_iff in Hd. destruct Hd as [_ Hq].
    unfold lex_literal, lex_literal_gen. cbn [app N.eqb Pos.eqb orb].
    rewrite <- app_assoc. cbn [app]. rewrite scan_raw_app by assumption. reflexivity.
  - destruct (raw_sq_ok v) eqn:Hs.
    + unfold raw_sq_ok in Hs. rewrite !andb_true_iff, !negb_true_iff in Hs. destruct Hs as [_ Hq].
      unfold lex_literal, lex_literal_gen. cbn [app N.eqb Pos.eqb orb].
      rewrite <- app_assoc. cbn [app]. rewrite scan_raw_app by assumption. reflexivity.
    + apply lex_quoted.
Qed.

(* a raw value read by the lexer never contains its own end quote: the printer can always
   write it raw again unless it spans lines (or holds the printer's internal marker byte) *)
Lemma scan_raw_no_quote q s v rest : scan_raw q s = Some (v, rest) -> has_byte q v = false.
Proof.
  revert v rest; induction s as [|b s IH]; simpl; intros v rest H; [discriminate|].
  destruct (N.eqb_spec b q).
  - injection H as <- _. reflexivity.
  - destruct (scan_raw q s) as [[v' r']|]; [|discriminate]. injection H as <- _.
    simpl. rewrite (IH v' r' eq_refl). destruct (N.eqb_spec b q); [contradiction|reflexivity].
Qed.

Lemma lexed_raw_printable s v rest :
  lex_literal s = Some (v, false, rest) ->
  has_byte 10 v = false -> has_byte 1 v = false -> raw_printable v = true.
Proof.
  unfold lex_literal, lex_literal_gen. intros H Hn Hm.
  destruct s as [|b s]; [discriminate|].
  destruct (N.eqb b 114).
  - destruct s as [|q s]; [discriminate|].
    destruct (N.eqb_spec q 34) as [->|H34].
    + cbn [orb] in H. destruct (scan_raw 34 s) as [[v' r']|] eqn:E; [|discriminate].
      injection H as <- _. apply scan_raw_no_quote in E.
      unfold raw_printable, raw_dq_ok. rewrite Hn, Hm, E. reflexivity.
    + destruct (N.eqb_spec q 39) as [->|H39]; [|discriminate].
      cbn [orb] in H. destruct (scan_raw 39 s) as [[v' r']|] eqn:E; [|discriminate].
      injection H as <- _. apply scan_raw_no_quote in E.
      unfold raw_printable, raw_sq_ok. rewrite Hn, Hm, E. apply orb_true_r.
  - destruct (N.eqb b 34 || N.eqb b 39); [|discriminate].
    destruct (scan_esc b false s) as [[body r']|]; [|discriminate].
    destruct (unquote _ _); discriminate.
Qed.
