(* Proofs/ParserTop.v — ParseWithRuntime (repaired model): from the invariant of run to the
   statement about the pair that is returned. *)
From Coq Require Import List String Bool Arith Lia ZArith.
From Ecal Require Import Common.Bytes Common.Ast gen.Tokens gen.Grammar Spec.ParseSpec Model.Parser
  Proofs.ParserProofs Proofs.ParserShapes Proofs.ParserInv.
Import ListNotations.
Local Open Scope string_scope.
Local Open Scope nat_scope.
Local Open Scope list_scope.

(* ---- NewLABuffer -------------------------------------------------------------------- *)

(* the ring and the channel together hold the token list, possibly followed by the zero token
   Go receives from the closed channel (only when the last token is not EOF) *)
Lemma la_fill_spec k : forall b v c, (exists b0, b = b0 ++ [v]) ->
  let '(b', c') := la_fill k b v c in
  b' ++ c' = b ++ c \/
  (b' ++ c' = (b ++ c) ++ [zero_tok] /\ exists l w, b ++ c = l ++ [w] /\ t_id w <> TokenEOF).
Proof.
  induction k as [|k IH]; intros b v c [b0 Hb]; simpl; [left; reflexivity|].
  destruct ((List.length b <? 3) && negb (t_id v =? TokenEOF)) eqn:Hc; [|left; reflexivity].
  destruct c as [|w c'].
  - right. rewrite !app_nil_r. split; [reflexivity|]. exists b0, v. split; [exact Hb|].
    apply andb_true_iff in Hc. destruct Hc as [_ Hc]. apply negb_true_iff in Hc.
    apply Nat.eqb_neq in Hc. exact Hc.
  - specialize (IH (b ++ [w]) w c' (ex_intro _ b eq_refl)).
    destruct (la_fill k (b ++ [w]) w c') as [b' c''].
    rewrite <- app_assoc in IH. simpl in IH. exact IH.
Qed.

Lemma la_init_spec all :
  let '(b, c) := la_init all in
  b ++ c = all \/
  (b ++ c = all ++ [zero_tok] /\ (all = [] \/ exists l w, all = l ++ [w] /\ t_id w <> TokenEOF)).
Proof.
  unfold la_init. destruct all as [|v c].
  - right. split; [reflexivity | left; reflexivity].
  - pose proof (la_fill_spec 3 [v] v c (ex_intro _ [] eq_refl)) as H.
    destruct (la_fill 3 [v] v c) as [b' c']. simpl in H.
    destruct H as [H|[H1 H2]]; [left; exact H | right; split; [exact H1 | right; exact H2]].
Qed.

Lemma eof_last_phantom all :
  eof_last all -> (all = [] \/ exists l w, all = l ++ [w] /\ t_id w <> TokenEOF) -> eof_last (all ++ [zero_tok]).
Proof.
  intros Hel Hlast pre t post Heq Ht.
  assert (Hno : forall x, In x all -> t_id x <> TokenEOF).
  { intros x Hx Hxe. destruct Hlast as [->|[l [w [Hl Hw]]]]; [destruct Hx|].
    apply in_split in Hx. destruct Hx as [p [q Hpq]].
    pose proof (Hel p x q Hpq Hxe) as Hq. subst q.
    rewrite Hl in Hpq. apply app_inj_tail in Hpq. destruct Hpq as [_ Hwx]. subst w. contradiction. }
  assert (Hin : In t (all ++ [zero_tok])) by (rewrite Heq; apply in_or_app; right; left; reflexivity).
  apply in_app_or in Hin. destruct Hin as [Hin|[Hin|[]]].
  - exfalso. apply (Hno t Hin Ht).
  - subst t. discriminate.
Qed.

(* ---- the top-level statement loop --------------------------------------------------- *)

Lemma top_new_ok fuel k : forall n acc o s,
  ext o s -> inv s -> List.length (toks s) < fuel -> List.length (toks s) < k -> Forall wf acc ->
  okres o s (fun cs _ => Forall wf cs) (top_new V fuel k n acc s).
Proof.
  induction k as [|k IH]; intros n acc o s E Hi HF Hk Hacc; [lia|]. cbn [top_new].
  destruct (has_more s (Some n)); [|apply okres_ret; assumption].
  destruct (inv_cur s Hi) as [t [e [Hc _]]]. unfold with_cur. rewrite Hc.
  eapply okres_bind with (P := fun _ s' => True).
  { destruct (t_id t =? TokenSEMICOLON).
    - eapply okres_weaken; [apply skipToken_ok; assumption | intros; exact I].
    - apply okres_ret; [assumption | exact I]. }
  intros u s1 Hs1 _. open_step Hs1 E.
  eapply okres_bind; [apply run_ok; try assumption; lia|]. intros n' s2 Hs2 [Hl2 [Hw2 _]]. open_step Hs2 Eo.
  apply IH; try assumption; try lia. apply Forall_snoc; assumption.
Qed.

(* ---- ParseWithRuntime --------------------------------------------------------------- *)

Definition positions (all : list tok) : list (nat * Z) := map pos_of all.

Definition good_result (all : list tok) (p : presult) : Prop :=
  match p with
  | PRes (Some t) None r => wf t /\ r = List.length all
  | PRes None (Some e) r => positioned e (positions all) /\ r = List.length all
  | _ => False
  end.

Theorem parse_ok all : eof_last all -> good_result all (parse all).
Proof.
  intros Hel. unfold parse, parse_with.
  pose proof (la_init_spec all) as Hinit. destruct (la_init all) as [b c].
  set (s0 := mkSt b c None false).
  assert (Htoks : alltoks s0 = b ++ c) by reflexivity.
  assert (Hel0 : eof_last (alltoks s0)).
  { rewrite Htoks. destruct Hinit as [->|[-> Hl]]; [exact Hel | apply eof_last_phantom; assumption]. }
  assert (Hpos : forall e, err_ok e s0 -> positioned e (positions all)).
  { intros e He. unfold err_ok in He. unfold positioned, positions. rewrite Htoks in He.
    destruct Hinit as [H|[H _]]; rewrite H in He; [exact He|].
    rewrite map_app in He. simpl in He. destruct He as [He|He]; [left; exact He|].
    apply in_app_or in He. destruct He as [He|[He|[]]]; [right; exact He | left; exact He]. }
  assert (Hlen : List.length (toks s0) <= List.length all + 1).
  { unfold toks. simpl. destruct Hinit as [->|[-> _]]; [lia | rewrite app_length; simpl; lia]. }
  assert (Hfin_err : forall t e s, err_ok e s0 -> good_result all (finish V all t (Some e) s)).
  { intros t e s He. unfold finish, received. simpl. split; [apply Hpos; exact He | reflexivity]. }
  pose proof (advance_spec s0 Hel0) as Hadv.
  destruct (advance V s0) as [u s1|e s1|x|]; try contradiction; [|apply Hfin_err; exact Hadv].
  destruct Hadv as [Hi1 [E1 Hl1]].
  pose proof (run_ok (parse_fuel all) s0 0 s1 E1 Hi1) as Hrun.
  assert (Hf1 : List.length (toks s1) < parse_fuel all) by (unfold parse_fuel; lia).
  specialize (Hrun Hf1).
  destruct (run V (parse_fuel all) 0 s1) as [n s2|e s2|x|]; simpl in Hrun; try contradiction;
    [|apply Hfin_err; exact Hrun].
  destruct Hrun as [Hs2 [Hl2 [Hwn _]]]. open_step Hs2 E1.
  change (v_propagate V) with true. cbv iota.
  set (r := if has_more s2 (Some n) then _ else _).
  assert (Hr : okres s0 s2 (fun p _ => wf (fst p) /\ snd p = None) r).
  { subst r. destruct (has_more s2 (Some n)).
    - eapply okres_bind; [apply top_new_ok; try assumption; try lia; [unfold fuel_of; lia|]|].
      { constructor; [assumption|constructor]. }
      intros cs s3 Hs3 Hcs. open_step Hs3 Eo.
      apply okres_ret; [assumption|]. split; [apply wf_statements; assumption | reflexivity].
    - apply okres_ret; [assumption|]. split; [assumption | reflexivity]. }
  clearbody r.
  destruct r as [[t oe] s3|e s3|x|]; simpl in Hr; try contradiction; [|apply Hfin_err; exact Hr].
  destruct Hr as [Hs3 [Hwt Hoe]]. simpl in Hwt, Hoe. subst oe. open_step Hs3 Eo.
  destruct (inv_cur s3 Hi0) as [tk [ek [Hck _]]]. rewrite Hck.
  destruct (negb (t_id tk =? TokenEOF)).
  - apply Hfin_err. eapply err_ok_ext; [exact Eo0|]. eapply err_ok_cur; eauto.
  - unfold finish, received. simpl. split; [exact Hwt | reflexivity].
Qed.
