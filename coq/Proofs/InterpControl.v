(* Proofs/InterpControl.v — C04 (control flow, try / except / otherwise / finally) on the UNIFIED
   interpreter model Model/Interp.v: characterising equations of [eval] on the compound nodes
   (try, loop, if, function call) through the [eval]s of their children, for ARBITRARY child
   trees, every state, every fuel and every implementation NO of the float64 operations.

   "X is evaluated exactly once" is read off an equation whose right side mentions the
   evaluation of X once; "Y is not evaluated" is an equation whose right side does not mention
   Y at all (the statement is universally quantified over Y) or an explicit independence
   statement (the node Y may be replaced by any other node).

   Part 1 (this file): vocabulary of the statements, the monad algebra, try. *)
From Coq Require Import List String NArith ZArith Bool Arith Lia.
From Ecal Require Import Common.Bytes Common.Ast gen.Tokens Model.Interp Proofs.InterpProofs.
Import ListNotations.
Local Open Scope string_scope.
Local Open Scope list_scope.
Local Open Scope nat_scope.

Section C.
  Context {NO : NumOps}.

  (* ================================================================ vocabulary of the statements *)

  (* a result that ended the evaluation inside the model's domain: a value or an error value
     (errors include the signals of return / break / continue) *)
  Definition completed {A} (r : res A) : bool :=
    match r with ROk _ | RErr _ => true | _ => false end.

  (* the deferred finally block F after the rest of the try statement ended with r:
     F runs ONCE in r's end state, for every completed r; an error of F replaces r *)
  Definition finally_after (r : res value * state) (F : M value) : res value * state :=
    if completed (fst r) then
      match F (snd r) with
      | (ROk _, st2) => (fst r, st2)
      | (fr, st2) => (fr, st2)
      end
    else r.

  (* a block evaluated for its effect only, then the value v *)
  Definition then_value (r : res value * state) (v : value) : res value * state :=
    match r with
    | (ROk _, st2) => (ROk v, st2)
    | x => x
    end.

  (* the result of an except clause's block is the result of the try statement, its value dropped *)
  Definition handler_result (r : res value * state) : res value * state := then_value r VNull.

  (* a name of an except clause: a string node that evaluates to its own text (no "{{ }}") *)
  Definition plain_name (c : node) : Prop :=
    is_name c NodeSTRING = true /\ eval_string c = ROk (VStr (n_val c)).
  (* the clause lists the type: one of its names is the error's type text *)
  Definition lists_type (names : list node) (ty : bytes) : bool :=
    existsb (fun c => bytes_eqb (n_val c) ty) names.
  (* an except clause matches an error type: it lists no type, or it lists this one *)
  Definition clause_matches (names : list node) (ty : bytes) : bool :=
    match names with [] => true | _ => lists_type names ty end.

  (* the optional binder of an except clause:  as x  |  x  | nothing; the variable it names *)
  Inductive binder_of : list node -> bytes -> Prop :=
  | bo_none : binder_of [] []
  | bo_as v i a l x r : binder_of [Node NodeAS v i a l (x :: r)] (n_val x)
  | bo_ident v i a l cs : binder_of [Node NodeIDENTIFIER v i a l cs] v.

  (* binding the error object to the clause's variable (nothing when there is none; a failure of
     the binding is ignored) *)
  Definition bind_errvar (evs : nat) (var : bytes) (errObj : value) : M unit :=
    match var with
    | [] => ret tt
    | _ => bind (attempt (set_value evs var errObj)) (fun _ => ret tt)
    end.

  (* a child of try that is no except clause, or an except clause that does not match ty *)
  Inductive passes (ty : bytes) : node -> Prop :=
  | ps_other c : is_name c NodeEXCEPT = false -> passes ty c
  | ps_nomatch v i a l names binder var block :
      Forall plain_name names -> binder_of binder var -> is_name block NodeSTATEMENTS = true ->
      clause_matches names ty = false ->
      passes ty (Node NodeEXCEPT v i a l (names ++ binder ++ [block])).

  (* ================================================================ monad algebra *)
  Lemma bind_ok_eq {A B} (m : M A) (f : A -> M B) st a st1 :
    m st = (ROk a, st1) -> bind m f st = f a st1.
  Proof. intros H. unfold bind. rewrite H. reflexivity. Qed.
  Lemma bind_err_eq {A B} (m : M A) (f : A -> M B) st e st1 :
    m st = (RErr e, st1) -> bind m f st = (RErr e, st1).
  Proof. intros H. unfold bind. rewrite H. reflexivity. Qed.
  Lemma attempt_ok_eq {A} (m : M A) st a st1 :
    m st = (ROk a, st1) -> attempt m st = (ROk (inl a), st1).
  Proof. intros H. unfold attempt. rewrite H. reflexivity. Qed.
  Lemma attempt_err_eq {A} (m : M A) st e st1 :
    m st = (RErr e, st1) -> attempt m st = (ROk (inr e), st1).
  Proof. intros H. unfold attempt. rewrite H. reflexivity. Qed.
  Lemma bind_ext {A B} (m : M A) (f g : A -> M B) st :
    (forall a s, f a s = g a s) -> bind m f st = bind m g st.
  Proof.
    intros H. unfold bind. destruct (m st) as [r s]. destruct r; try reflexivity. apply H.
  Qed.
  Lemma bind_ret_eq {A B} (a : A) (f : A -> M B) st : bind (ret a) f st = f a st.
  Proof. reflexivity. Qed.

  (* ================================================================ dispatch *)
  Lemma eval_try_eq f p tv ti ta tl cs sc is :
    eval (S f) p (Node NodeTRY tv ti ta tl cs) sc is = eval_try (eval f) p cs sc is.
  Proof. reflexivity. Qed.
  Lemma eval_loop_eq f p tv ti ta tl cs sc is :
    eval (S f) p (Node NodeLOOP tv ti ta tl cs) sc is = eval_loop (eval f) f p cs sc is.
  Proof. reflexivity. Qed.
  Lemma eval_if_eq f p tv ti ta tl cs sc is :
    eval (S f) p (Node NodeIF tv ti ta tl cs) sc is = eval_if (eval f) p cs sc is.
  Proof. reflexivity. Qed.
  Lemma eval_return_eq f p tv ti ta tl cs sc is :
    eval (S f) p (Node NodeRETURN tv ti ta tl cs) sc is = eval_return (eval f) p cs sc is.
  Proof. reflexivity. Qed.
  Lemma eval_break_eq f p tv ti ta tl cs sc is :
    eval (S f) p (Node NodeBREAK tv ti ta tl cs) sc is = fail (rt_err T_EOI).
  Proof. reflexivity. Qed.
  Lemma eval_continue_eq f p tv ti ta tl cs sc is :
    eval (S f) p (Node NodeCONTINUE tv ti ta tl cs) sc is = fail (rt_err T_CONT).
  Proof. reflexivity. Qed.

  Section WithEv.
    Variable ev : evalT.

    (* ================================================================ try: the clause walkers skip foreign children *)
    Lemma try_excepts_snoc_skip p x sc is e eo :
      is_name x NodeEXCEPT = false ->
      forall kids idx st,
        try_excepts ev p idx (kids ++ [x]) sc is e eo st = try_excepts ev p idx kids sc is e eo st.
    Proof.
      intros Hx. induction kids as [|c r IH]; intros idx st.
      - cbn [app try_excepts]. rewrite Hx. reflexivity.
      - cbn [app try_excepts]. destruct (is_name c NodeEXCEPT); [|apply IH].
        apply bind_ext. intros h s. destruct (fst h); [reflexivity|apply IH].
    Qed.
    Lemma try_otherwise_snoc_skip p x sc is :
      is_name x NodeOTHERWISE = false ->
      forall kids idx st,
        try_otherwise ev p idx (kids ++ [x]) sc is st = try_otherwise ev p idx kids sc is st.
    Proof.
      intros Hx. induction kids as [|c r IH]; intros idx st.
      - cbn [app try_otherwise]. rewrite Hx. reflexivity.
      - cbn [app try_otherwise]. destruct (is_name c NodeOTHERWISE); [reflexivity|apply IH].
    Qed.

    Lemma is_name_excl n a b : is_name n a = true -> String.eqb a b = false -> is_name n b = false.
    Proof.
      unfold is_name. intros H1 H2. apply String.eqb_eq in H1. rewrite H1. exact H2.
    Qed.

    Lemma try_main_snoc_finally p body clauses fin sc is st :
      is_name fin NodeFINALLY = true ->
      try_main ev p body (clauses ++ [fin]) sc is st = try_main ev p body clauses sc is st.
    Proof.
      intros Hf. unfold try_main. apply bind_ext. intros tvs s. apply bind_ext. intros r s1.
      destruct r as [v|e].
      - unfold bind. rewrite try_otherwise_snoc_skip; [reflexivity|].
        eapply is_name_excl; [exact Hf|reflexivity].
      - destruct (is_flow e); [reflexivity|]. apply bind_ext. intros eo s2.
        apply try_excepts_snoc_skip. eapply is_name_excl; [exact Hf|reflexivity].
    Qed.

    Lemma last_snoc {A} (l : list A) x d : last (l ++ [x]) d = x.
    Proof. induction l as [|a r IH]; [reflexivity|]. cbn [app]. destruct (r ++ [x]) eqn:E.
           - destruct r; discriminate. - cbn [last]. cbn [last] in IH. exact IH. Qed.

    (* try without a finally clause *)
    Lemma eval_try_plain p body clauses sc is :
      is_name (last (body :: clauses) body) NodeFINALLY = false ->
      eval_try ev p (body :: clauses) sc is = try_main ev p body clauses sc is.
    Proof. intros H. unfold eval_try. rewrite H. reflexivity. Qed.

    (* 1. finally *)
    Lemma eval_try_finally p body clauses fv fi fa fl fb fkids sc is st fvs st0 :
      let fin := Node NodeFINALLY fv fi fa fl (fb :: fkids) in
      let fidx := S (length clauses) in
      new_child sc (fidx :: p) st = (ROk fvs, st0) ->
      eval_try ev p (body :: clauses ++ [fin]) sc is st =
      finally_after (try_main ev p body clauses sc is st0) (ev (0 :: fidx :: p) fb fvs is).
    Proof.
      intros fin fidx Hn. unfold eval_try.
      replace (last (body :: clauses ++ [fin]) body) with fin
        by (symmetry; apply (last_snoc (body :: clauses) fin body)).
      replace (length (body :: clauses ++ [fin]) - 1) with fidx
        by (unfold fidx; cbn [length]; rewrite app_length; cbn [length]; lia).
      change (is_name fin NodeFINALLY) with true. cbv iota. change (n_children fin) with (fb :: fkids).
      cbv iota. rewrite (bind_ok_eq _ _ _ _ _ Hn).
      unfold finally_after, bind, attempt.
      rewrite try_main_snoc_finally by reflexivity.
      destruct (try_main ev p body clauses sc is st0) as [r st1].
      destruct r as [v|e|s| |w|w]; cbn [fst snd completed]; try reflexivity.
      - destruct (ev (0 :: fidx :: p) fb fvs is st1) as [fr st2]. destruct fr; reflexivity.
      - destruct (ev (0 :: fidx :: p) fb fvs is st1) as [fr st2]. destruct fr; reflexivity.
    Qed.

    (* 2. the signals of return / break / continue pass every clause *)
    Lemma try_main_signal p body clauses sc is st tvs st0 e st1 :
      new_child sc p st = (ROk tvs, st0) ->
      ev (0 :: p) body tvs is st0 = (RErr e, st1) ->
      is_flow e = true ->
      try_main ev p body clauses sc is st = (RErr e, st1).
    Proof.
      intros Hn Hb Hf. unfold try_main. rewrite (bind_ok_eq _ _ _ _ _ Hn).
      rewrite (bind_ok_eq _ _ _ _ _ (attempt_err_eq _ _ _ _ Hb)). rewrite Hf. reflexivity.
    Qed.

    (* 3. otherwise *)
    Lemma try_main_ok p body clauses sc is st tvs st0 v st1 :
      new_child sc p st = (ROk tvs, st0) ->
      ev (0 :: p) body tvs is st0 = (ROk v, st1) ->
      try_main ev p body clauses sc is st =
      bind (try_otherwise ev p 1 clauses sc is) (fun _ => ret v) st1.
    Proof.
      intros Hn Hb. unfold try_main. rewrite (bind_ok_eq _ _ _ _ _ Hn).
      rewrite (bind_ok_eq _ _ _ _ _ (attempt_ok_eq _ _ _ _ Hb)). reflexivity.
    Qed.

    Lemma try_otherwise_none p sc is :
      forall clauses idx st,
        Forall (fun c => is_name c NodeOTHERWISE = false) clauses ->
        try_otherwise ev p idx clauses sc is st = (ROk tt, st).
    Proof.
      induction clauses as [|c r IH]; intros idx st H; [reflexivity|].
      inversion H as [|? ? Hc Hr]; subst. cbn [try_otherwise]. rewrite Hc. apply IH. exact Hr.
    Qed.

    Lemma try_otherwise_found p sc is ov oi oa ol ob okids post :
      forall pre idx st,
        Forall (fun c => is_name c NodeOTHERWISE = false) pre ->
        try_otherwise ev p idx (pre ++ Node NodeOTHERWISE ov oi oa ol (ob :: okids) :: post) sc is st =
        bind (new_child sc (idx + length pre :: p))
             (fun ovs => bind (ev (0 :: idx + length pre :: p) ob ovs is) (fun _ => ret tt)) st.
    Proof.
      induction pre as [|c r IH]; intros idx st H.
      - cbn [app try_otherwise length]. rewrite Nat.add_0_r. reflexivity.
      - inversion H as [|? ? Hc Hr]; subst. cbn [app try_otherwise length]. rewrite Hc.
        rewrite IH by exact Hr. replace (S idx + length r) with (idx + S (length r)) by lia. reflexivity.
    Qed.

    Lemma try_main_ok_otherwise p body pre ov oi oa ol ob okids post sc is st tvs st0 v st1 ovs st2 :
      new_child sc p st = (ROk tvs, st0) ->
      ev (0 :: p) body tvs is st0 = (ROk v, st1) ->
      Forall (fun c => is_name c NodeOTHERWISE = false) pre ->
      new_child sc (S (length pre) :: p) st1 = (ROk ovs, st2) ->
      try_main ev p body (pre ++ Node NodeOTHERWISE ov oi oa ol (ob :: okids) :: post) sc is st =
      then_value (ev (0 :: S (length pre) :: p) ob ovs is st2) v.
    Proof.
      intros Hn Hb Hpre Ho. rewrite (try_main_ok _ _ _ _ _ _ _ _ _ _ Hn Hb).
      unfold bind at 1. rewrite try_otherwise_found by exact Hpre. cbn [Nat.add].
      rewrite (bind_ok_eq _ _ _ _ _ Ho). unfold bind, then_value.
      destruct (ev (0 :: S (length pre) :: p) ob ovs is st2) as [r s]. destruct r; reflexivity.
    Qed.

    Lemma try_main_ok_no_otherwise p body clauses sc is st tvs st0 v st1 :
      new_child sc p st = (ROk tvs, st0) ->
      ev (0 :: p) body tvs is st0 = (ROk v, st1) ->
      Forall (fun c => is_name c NodeOTHERWISE = false) clauses ->
      try_main ev p body clauses sc is st = (ROk v, st1).
    Proof.
      intros Hn Hb Hc. rewrite (try_main_ok _ _ _ _ _ _ _ _ _ _ Hn Hb).
      unfold bind. rewrite try_otherwise_none by exact Hc. reflexivity.
    Qed.

    (* a failing body: what the clause walker does depends on the except clauses only *)
    Lemma try_excepts_indep p sc is e eo x x' post :
      is_name x NodeEXCEPT = false -> is_name x' NodeEXCEPT = false ->
      forall pre idx st,
        try_excepts ev p idx (pre ++ x :: post) sc is e eo st =
        try_excepts ev p idx (pre ++ x' :: post) sc is e eo st.
    Proof.
      intros Hx Hx'. induction pre as [|c r IH]; intros idx st.
      - cbn [app try_excepts]. rewrite Hx, Hx'. reflexivity.
      - cbn [app try_excepts]. destruct (is_name c NodeEXCEPT); [|apply IH].
        apply bind_ext. intros h s. destruct (fst h); [reflexivity|apply IH].
    Qed.

    Lemma try_main_err p body clauses sc is st tvs st0 e st1 :
      new_child sc p st = (ROk tvs, st0) ->
      ev (0 :: p) body tvs is st0 = (RErr e, st1) ->
      is_flow e = false ->
      try_main ev p body clauses sc is st =
      bind (make_errobj e) (fun eo => try_excepts ev p 1 clauses sc is e eo) st1.
    Proof.
      intros Hn Hb Hf. unfold try_main. rewrite (bind_ok_eq _ _ _ _ _ Hn).
      rewrite (bind_ok_eq _ _ _ _ _ (attempt_err_eq _ _ _ _ Hb)). rewrite Hf. reflexivity.
    Qed.

    Lemma try_main_err_indep p body pre x x' post sc is st tvs st0 e st1 :
      is_name x NodeEXCEPT = false -> is_name x' NodeEXCEPT = false ->
      new_child sc p st = (ROk tvs, st0) ->
      ev (0 :: p) body tvs is st0 = (RErr e, st1) ->
      try_main ev p body (pre ++ x :: post) sc is st = try_main ev p body (pre ++ x' :: post) sc is st.
    Proof.
      intros Hx Hx' Hn Hb. destruct (is_flow e) eqn:Hf.
      - rewrite !(try_main_signal _ _ _ _ _ _ _ _ _ _ Hn Hb Hf). reflexivity.
      - rewrite !(try_main_err _ _ _ _ _ _ _ _ _ _ Hn Hb Hf). apply bind_ext. intros eo s.
        apply try_excepts_indep; assumption.
    Qed.

    (* ================================================================ 4. except clauses *)
    Lemma plain_name_step ep idx c r sc is eo ty hit ht var ne st :
      plain_name c ->
      except_kids ev ep idx (c :: r) sc is eo ty hit ht var ne st =
      except_kids ev ep (S idx) r sc is eo ty (hit || bytes_eqb (n_val c) ty) true var ne st.
    Proof.
      intros [Hn Hs]. cbn [except_kids]. rewrite Hn. destruct hit; [reflexivity|].
      rewrite Hs. reflexivity.
    Qed.

    Lemma except_names ep sc is eo ty var ne rest :
      forall names idx hit ht st,
        Forall plain_name names ->
        except_kids ev ep idx (names ++ rest) sc is eo ty hit ht var ne st =
        except_kids ev ep (idx + length names) rest sc is eo ty
                    (hit || lists_type names ty) (match names with [] => ht | _ => true end) var ne st.
    Proof.
      induction names as [|c r IH]; intros idx hit ht st H.
      - cbn [app length lists_type existsb]. rewrite Nat.add_0_r, orb_false_r. reflexivity.
      - inversion H as [|? ? Hc Hr]; subst. cbn [app]. rewrite plain_name_step by exact Hc.
        rewrite IH by exact Hr. cbn [length lists_type existsb].
        replace (S idx + length r) with (idx + S (length r)) by lia.
        rewrite orb_assoc. unfold lists_type. destruct r; reflexivity.
    Qed.

    Lemma except_binder ep sc is eo ty ne rest binder var :
      binder_of binder var ->
      forall idx hit ht st,
        except_kids ev ep idx (binder ++ rest) sc is eo ty hit ht [] ne st =
        except_kids ev ep (idx + length binder) rest sc is eo ty hit ht var ne st.
    Proof.
      intros H idx hit ht st. destruct H.
      - cbn [app length]. rewrite Nat.add_0_r. reflexivity.
      - cbn [app length except_kids]. replace (idx + 1) with (S idx) by lia. reflexivity.
      - cbn [app length except_kids]. replace (idx + 1) with (S idx) by lia. reflexivity.
    Qed.

    Definition run_handler (ep : list nat) (k : nat) (block : node) (sc is : nat) (eo : value) (var : bytes)
      : M (bool * option error) :=
      bind (new_child sc ep) (fun evs =>
        bind (bind_errvar evs var eo) (fun _ =>
          bind (attempt (ev (k :: ep) block evs is)) (fun b =>
            ret (true, match b with inl _ => None | inr e => Some e end)))).

    Lemma except_block ep k block sc is eo ty hit ht var ne st :
      is_name block NodeSTATEMENTS = true ->
      except_kids ev ep k [block] sc is eo ty hit ht var ne st =
      if (if ht then hit else true) then run_handler ep k block sc is eo var st
      else (ROk (false, ne), st).
    Proof.
      intros Hb. cbn [except_kids].
      rewrite (is_name_excl _ _ NodeSTRING Hb) by reflexivity.
      rewrite (is_name_excl _ _ NodeAS Hb) by reflexivity.
      rewrite (is_name_excl _ _ NodeIDENTIFIER Hb) by reflexivity.
      rewrite Hb. destruct (if ht then hit else true) eqn:E; [|reflexivity].
      unfold run_handler, bind_errvar. apply bind_ext. intros evs s.
      destruct var; reflexivity.
    Qed.

    Lemma except_clause ep names binder var block sc is eo ty st :
      Forall plain_name names -> binder_of binder var -> is_name block NodeSTATEMENTS = true ->
      except_kids ev ep 0 (names ++ binder ++ [block]) sc is eo ty false false [] None st =
      if clause_matches names ty
      then run_handler ep (length names + length binder) block sc is eo var st
      else (ROk (false, None), st).
    Proof.
      intros Hn Hbi Hb. rewrite except_names by exact Hn.
      rewrite (except_binder _ _ _ _ _ _ _ _ _ Hbi). rewrite except_block by exact Hb.
      cbn [Nat.add orb]. unfold clause_matches. destruct names; reflexivity.
    Qed.

    (* clauses that do not match are passed without any effect *)
    Lemma try_excepts_pass p sc is e eo rest :
      forall pre idx st,
        Forall (passes (err_type_text e)) pre ->
        try_excepts ev p idx (pre ++ rest) sc is e eo st =
        try_excepts ev p (idx + length pre) rest sc is e eo st.
    Proof.
      induction pre as [|c r IH]; intros idx st H.
      - cbn [app length]. rewrite Nat.add_0_r. reflexivity.
      - inversion H as [|? ? Hc Hr]; subst. cbn [app length].
        replace (idx + S (length r)) with (S idx + length r) by lia.
        destruct Hc as [c Hc | v i a l names binder var block Hn Hbi Hb Hm].
        + cbn [try_excepts]. rewrite Hc. apply IH. exact Hr.
        + cbn [try_excepts]. change (is_name (Node NodeEXCEPT v i a l (names ++ binder ++ [block])) NodeEXCEPT) with true.
          cbv iota. change (n_children (Node NodeEXCEPT v i a l (names ++ binder ++ [block]))) with (names ++ binder ++ [block]).
          unfold bind at 1. rewrite (except_clause _ names binder var block) by assumption. rewrite Hm. cbn [fst]. apply IH. exact Hr.
    Qed.

    Lemma try_excepts_nil p idx sc is e eo st : try_excepts ev p idx [] sc is e eo st = (RErr e, st).
    Proof. reflexivity. Qed.

    Lemma try_excepts_hit p idx v i a l names binder var block post sc is e eo st evs st1 st2 :
      Forall plain_name names -> binder_of binder var -> is_name block NodeSTATEMENTS = true ->
      clause_matches names (err_type_text e) = true ->
      new_child sc (idx :: p) st = (ROk evs, st1) ->
      bind_errvar evs var eo st1 = (ROk tt, st2) ->
      try_excepts ev p idx (Node NodeEXCEPT v i a l (names ++ binder ++ [block]) :: post) sc is e eo st =
      handler_result (ev (length names + length binder :: idx :: p) block evs is st2).
    Proof.
      intros Hn Hbi Hb Hm Hc Hv. cbn [try_excepts].
      change (is_name (Node NodeEXCEPT v i a l (names ++ binder ++ [block])) NodeEXCEPT) with true.
      cbv iota. change (n_children (Node NodeEXCEPT v i a l (names ++ binder ++ [block]))) with (names ++ binder ++ [block]).
      unfold bind at 1. rewrite (except_clause _ names binder var block) by assumption. rewrite Hm.
      unfold run_handler. rewrite (bind_ok_eq _ _ _ _ _ Hc). rewrite (bind_ok_eq _ _ _ _ _ Hv).
      unfold bind, attempt, handler_result, then_value.
      destruct (ev (length names + length binder :: idx :: p) block evs is st2) as [r s].
      destruct r; reflexivity.
    Qed.

    (* 4a. the FIRST matching clause handles the error; only its block is evaluated *)
    Lemma try_main_first_match p body pre v i a l names binder var block post sc is
          st tvs st0 e st1 eo st2 evs st3 st4 :
      new_child sc p st = (ROk tvs, st0) ->
      ev (0 :: p) body tvs is st0 = (RErr e, st1) ->
      is_flow e = false ->
      Forall (passes (err_type_text e)) pre ->
      Forall plain_name names -> binder_of binder var -> is_name block NodeSTATEMENTS = true ->
      clause_matches names (err_type_text e) = true ->
      make_errobj e st1 = (ROk eo, st2) ->
      new_child sc (S (length pre) :: p) st2 = (ROk evs, st3) ->
      bind_errvar evs var eo st3 = (ROk tt, st4) ->
      try_main ev p body (pre ++ Node NodeEXCEPT v i a l (names ++ binder ++ [block]) :: post) sc is st =
      handler_result (ev (length names + length binder :: S (length pre) :: p) block evs is st4).
    Proof.
      intros Hn Hb Hf Hpre Hnm Hbi Hbl Hm Ho Hc Hv.
      rewrite (try_main_err _ _ _ _ _ _ _ _ _ _ Hn Hb Hf). rewrite (bind_ok_eq _ _ _ _ _ Ho).
      rewrite try_excepts_pass by exact Hpre. cbn [Nat.add].
      eapply try_excepts_hit; eassumption.
    Qed.

    (* 4b. no clause matches: the error propagates unchanged *)
    Lemma try_main_no_match p body clauses sc is st tvs st0 e st1 eo st2 :
      new_child sc p st = (ROk tvs, st0) ->
      ev (0 :: p) body tvs is st0 = (RErr e, st1) ->
      is_flow e = false ->
      Forall (passes (err_type_text e)) clauses ->
      make_errobj e st1 = (ROk eo, st2) ->
      try_main ev p body clauses sc is st = (RErr e, st2).
    Proof.
      intros Hn Hb Hf Hpre Ho.
      rewrite (try_main_err _ _ _ _ _ _ _ _ _ _ Hn Hb Hf). rewrite (bind_ok_eq _ _ _ _ _ Ho).
      rewrite <- (app_nil_r clauses). rewrite try_excepts_pass by exact Hpre. reflexivity.
    Qed.
  End WithEv.
End C.
