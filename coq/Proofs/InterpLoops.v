(* Proofs/InterpLoops.v — C04 on the unified interpreter model, the ITERATION PROTOCOL of the
   `in` loops:  for x in <list>,  for [k, v] in <map>,  for x in <single value>,
   for i in range(a, b, s)  (Model/Interp.v eval_loop / iter_loop / iter_next / b_range; Go:
   interpreter/rt_statements.go loopRuntime.Eval, handleIterator, getIterator, getIteratorValue,
   func_provider.go rangeFunc).  Same conventions as Proofs/InterpControl.v: equations of [eval]
   on the loop node through the [eval]s of its children, for arbitrary child trees, every state,
   fuel and NumOps.

   What the model (= the Go code) does, as the equations below state it:
   * list:   the slice header (array reference a, length len) is taken ONCE when the loop starts; round
             i = 0 .. len-1 reads a[i] AT ITERATION TIME (an element the body overwrote is seen with its
             new value; elements appended by the body are not visited: len is the snapshot).
   * map:    the KEY list is taken once when the loop starts and sorted by the printed form
             (fmt.Sprint) of the keys with Go's < on strings; the VALUE of a key is looked up at
             iteration time (a key the body removed is visited with the value null).
   * single value: exactly one round.
   * range:  the iterator expression is evaluated AGAIN every round; see Proofs/InterpLoops2.v. *)
From Coq Require Import List String NArith ZArith Bool Arith Lia Permutation Sorted.
From Ecal Require Import Common.Bytes Common.Ast gen.Tokens Model.Interp Proofs.InterpProofs
  Proofs.InterpControl Proofs.InterpControl2.
Import ListNotations.
Local Open Scope string_scope.
Local Open Scope list_scope.
Local Open Scope nat_scope.

Section L.
  Context {NO : NumOps}.

  (* ================================================================ vocabulary of the statements *)

  (* how a round that ended with r continues: a value or the continue signal -> the rest of the
     loop; the break signal -> the loop ends normally; any other error (a failure, the return
     signal) leaves the loop *)
  Definition after_round (r : value + error) (next : M value) : M value :=
    match r with
    | inl _ => next
    | inr e => if is_rt e T_CONT then next else if is_rt e T_EOI then ret VNull else fail e
    end.

  (* one round with the iterator value v: the loop variables are bound in the loop's scope c
     (a failure of the binding is a "Runtime error" that leaves the loop), then the body is
     evaluated ONCE *)
  Definition one_round (ev : evalT) (path : list nat) (body : node) (vars : list bytes) (c is : nat)
             (v : value) (next : M value) : M value :=
    bind (assign_vars vars v c) (fun _ =>
      bind (attempt (ev (1 :: path) body c is)) (fun r => after_round r next)).

  (* the rounds of a loop over a FINITE sequence of iterator values; gets = for every round the
     step that produces the round's value.  k = the fuel of the loop (one unit per round and one
     to see the end) *)
  Fixpoint in_rounds (ev : evalT) (k : nat) (gets : list (M value)) (path : list nat) (body : node)
           (vars : list bytes) (c is : nat) : M value :=
    match k with
    | O => lift RFuel
    | S k' =>
      match gets with
      | [] => ret VNull
      | g :: rest => bind g (fun v => one_round ev path body vars c is v
                                                (in_rounds ev k' rest path body vars c is))
      end
    end.
  (* the same without the fuel counter: one round per element, in order *)
  Definition in_rounds_all (ev : evalT) (gets : list (M value)) (path : list nat) (body : node)
             (vars : list bytes) (c is : nat) : M value :=
    fold_right (fun g next => bind g (fun v => one_round ev path body vars c is v next)) (ret VNull) gets.

  (* the value of round i of a list loop: the element the array a holds NOW at index i
     (valList[index] on the slice header (a, len) taken at loop start) *)
  Definition list_elem (a len i : nat) : M value :=
    bind (get_arr a) (fun cells => lift (go_index cells len (Z.of_nat i))).

  (* the value of a round of a map loop for the key k: the two-element list [k, valMap[k]] with the
     value the map holds NOW (null for a key that is gone) *)
  Definition map_entry (id : nat) (k : value) : M value :=
    bind (get_map id) (fun m =>
      bind (alloc_arr [k; match m_get k m with Some v => v | None => VNull end]) (fun a =>
        ret (VList a 2))).

  (* the keys of the map m as the loop takes them at its start in state st: every key with its
     printed form *)
  Definition printed_keys (st : state) (m : list (value * value)) : option (list (bytes * value)) :=
    all_some (map (fun kv => match sprint 8 st (fst kv) with
                             | Some s => Some (s, fst kv)
                             | None => None end) m).

  (* strict string order (Go's < on strings) *)
  Definition bytes_lt (a b : bytes) : Prop := bytes_ltb a b = true.

  (* the loop node  for <v> in <it> { body } *)
  Definition in_loop_of tv ti ta tl hv hi ha hl (v it body : node) (more : list node) : node :=
    Node NodeLOOP tv ti ta tl (Node NodeIN hv hi ha hl [v; it] :: body :: more).

  (* ================================================================ monad algebra *)
  Lemma bind_assoc {A B C} (m : M A) (f : A -> M B) (g : B -> M C) st :
    bind (bind m f) g st = bind m (fun a => bind (f a) g) st.
  Proof. unfold bind. destruct (m st) as [r s]. destruct r; reflexivity. Qed.

  Lemma is_rt_eoi_self : is_rt (rt_err T_EOI) T_EOI = true.
  Proof. reflexivity. Qed.
  Lemma is_rt_eoi_cont : is_rt (rt_err T_EOI) T_CONT = false.
  Proof. reflexivity. Qed.

  Section WithEv.
    Variable ev : evalT.

    Lemma one_round_ext path body vars c is v (n1 n2 : M value) st :
      (forall s, n1 s = n2 s) ->
      one_round ev path body vars c is v n1 st = one_round ev path body vars c is v n2 st.
    Proof.
      intros H. unfold one_round. apply bind_ext. intros _ s. apply bind_ext. intros r s1.
      destruct r as [u|e]; cbn [after_round]; [apply H|]. destruct (is_rt e T_CONT); [apply H|reflexivity].
    Qed.

    (* ================================================================ one step of the iterator loop *)
    Lemma iter_loop_S k mode index path it body vars c is st :
      iter_loop ev (S k) mode index path it body vars c is st =
      bind (iter_next ev mode index (1 :: 0 :: path) it c is) (fun nx =>
        match nx with
        | inl v => one_round ev path body vars c is v (iter_loop ev k mode (S index) path it body vars c is)
        | inr e => after_round (inr e) (iter_loop ev k mode (S index) path it body vars c is)
        end) st.
    Proof. reflexivity. Qed.

    (* ================================================================ what a round does *)
    (* the body ends normally: the next round *)
    Lemma one_round_body_ok path body vars c is v next st st1 u st2 :
      assign_vars vars v c st = (ROk tt, st1) ->
      ev (1 :: path) body c is st1 = (ROk u, st2) ->
      one_round ev path body vars c is v next st = next st2.
    Proof.
      intros Ha Hb. unfold one_round. rewrite (bind_ok_eq _ _ _ _ _ Ha).
      rewrite (bind_ok_eq _ _ _ _ _ (attempt_ok_eq _ _ _ _ Hb)). reflexivity.
    Qed.
    (* continue: the next round (the next element) *)
    Lemma one_round_continue path body vars c is v next st st1 e st2 :
      assign_vars vars v c st = (ROk tt, st1) ->
      ev (1 :: path) body c is st1 = (RErr e, st2) ->
      is_rt e T_CONT = true ->
      one_round ev path body vars c is v next st = next st2.
    Proof.
      intros Ha Hb He. unfold one_round. rewrite (bind_ok_eq _ _ _ _ _ Ha).
      rewrite (bind_ok_eq _ _ _ _ _ (attempt_err_eq _ _ _ _ Hb)). cbn [after_round]. rewrite He. reflexivity.
    Qed.
    (* break: the loop ends normally in the body's end state; no further element is visited *)
    Lemma one_round_break path body vars c is v next st st1 e st2 :
      assign_vars vars v c st = (ROk tt, st1) ->
      ev (1 :: path) body c is st1 = (RErr e, st2) ->
      is_rt e T_EOI = true ->
      one_round ev path body vars c is v next st = (ROk VNull, st2).
    Proof.
      intros Ha Hb He. unfold one_round. rewrite (bind_ok_eq _ _ _ _ _ Ha).
      rewrite (bind_ok_eq _ _ _ _ _ (attempt_err_eq _ _ _ _ Hb)). cbn [after_round].
      rewrite (is_rt_eoi_not_cont _ He), He. reflexivity.
    Qed.
    (* any other error (a failure, the return signal) leaves the loop unchanged *)
    Lemma one_round_error path body vars c is v next st st1 e st2 :
      assign_vars vars v c st = (ROk tt, st1) ->
      ev (1 :: path) body c is st1 = (RErr e, st2) ->
      is_rt e T_CONT = false -> is_rt e T_EOI = false ->
      one_round ev path body vars c is v next st = (RErr e, st2).
    Proof.
      intros Ha Hb Hc He. unfold one_round. rewrite (bind_ok_eq _ _ _ _ _ Ha).
      rewrite (bind_ok_eq _ _ _ _ _ (attempt_err_eq _ _ _ _ Hb)). cbn [after_round].
      rewrite Hc, He. reflexivity.
    Qed.
    (* the variables cannot be bound: the loop ends with that error, the body is not evaluated *)
    Lemma one_round_unbound path body vars c is v next st e st1 :
      assign_vars vars v c st = (RErr e, st1) ->
      one_round ev path body vars c is v next st = (RErr e, st1).
    Proof. intros Ha. unfold one_round. rewrite (bind_err_eq _ _ _ _ _ Ha). reflexivity. Qed.

    (* one loop variable: it receives the iterator value by SetValue in the loop's scope *)
    Lemma assign_vars_one x v c st :
      assign_vars [x] v c st =
      match set_value c x v st with
      | (RErr _, st1) => (RErr (rt_err T_RUNTIME), st1)
      | r => r
      end.
    Proof.
      unfold assign_vars, bind, attempt. destruct (set_value c x v st) as [r s].
      destruct r as [[]| | | | |]; reflexivity.
    Qed.

    (* ================================================================ finite sequences of rounds *)
    Lemma in_rounds_enough_fuel path body vars c is :
      forall gets k st, length gets < k ->
        in_rounds ev k gets path body vars c is st = in_rounds_all ev gets path body vars c is st.
    Proof.
      induction gets as [|g r IH]; intros k st Hk.
      - destruct k; [lia|]. reflexivity.
      - destruct k as [|k]; [cbn [length] in Hk; lia|]. cbn [in_rounds in_rounds_all fold_right].
        apply bind_ext. intros v s. apply one_round_ext. intros s1. apply IH. cbn [length] in Hk. lia.
    Qed.
    Lemma in_rounds_no_fuel path body vars c is :
      forall gets st, in_rounds ev 0 gets path body vars c is st = (RFuel, st).
    Proof. reflexivity. Qed.

    (* ---- list *)
    Lemma iter_loop_list a len path it body vars c is :
      forall k index st,
        iter_loop ev k (ItList a len) index path it body vars c is st =
        in_rounds ev k (map (list_elem a len) (seq index (len - index))) path body vars c is st.
    Proof.
      induction k as [|k IH]; intros index st; [reflexivity|].
      rewrite iter_loop_S. cbn [iter_next]. destruct (Nat.ltb_spec index len) as [Hlt|Hge].
      - replace (len - index) with (S (len - S index)) by lia. cbn [seq map in_rounds].
        rewrite bind_assoc. unfold list_elem. rewrite bind_assoc. apply bind_ext. intros cells s.
        rewrite bind_assoc. apply bind_ext. intros v s1.
        rewrite bind_ret_eq. apply one_round_ext. intros s2. apply IH.
      - replace (len - index) with 0 by lia. cbn [seq map in_rounds]. rewrite bind_ret_eq.
        cbn [after_round]. rewrite is_rt_eoi_cont, is_rt_eoi_self. reflexivity.
    Qed.

    (* ---- map *)
    Lemma skipn_nth_some {A} : forall (l : list A) i x, nth_error l i = Some x -> skipn i l = x :: skipn (S i) l.
    Proof.
      induction l as [|y r IH]; intros [|i] x H; try discriminate.
      - injection H as ->. reflexivity.
      - cbn [nth_error] in H. cbn [skipn]. rewrite (IH _ _ H). reflexivity.
    Qed.
    Lemma skipn_nth_none {A} : forall (l : list A) i, nth_error l i = None -> skipn i l = [].
    Proof.
      induction l as [|y r IH]; intros [|i] H; try reflexivity; try discriminate.
      cbn [nth_error] in H. cbn [skipn]. apply IH. exact H.
    Qed.

    Lemma iter_loop_map id keys path it body vars c is :
      forall k index st,
        iter_loop ev k (ItMap id keys) index path it body vars c is st =
        in_rounds ev k (map (map_entry id) (skipn index keys)) path body vars c is st.
    Proof.
      induction k as [|k IH]; intros index st; [reflexivity|].
      rewrite iter_loop_S. cbn [iter_next]. destruct (nth_error keys index) as [key|] eqn:E.
      - rewrite (skipn_nth_some _ _ _ E). cbn [map in_rounds].
        rewrite bind_assoc. unfold map_entry. rewrite bind_assoc. apply bind_ext. intros m s.
        rewrite bind_assoc. rewrite bind_assoc. apply bind_ext. intros a s1.
        rewrite !bind_ret_eq. apply one_round_ext. intros s2. apply IH.
      - rewrite (skipn_nth_none _ _ E). cbn [map in_rounds]. rewrite bind_ret_eq.
        cbn [after_round]. rewrite is_rt_eoi_cont, is_rt_eoi_self. reflexivity.
    Qed.

    (* ---- a single value: exactly one round *)
    Lemma iter_loop_one v path it body vars c is :
      forall k st,
        iter_loop ev k (ItOne v) 0 path it body vars c is st =
        in_rounds ev k [ret v] path body vars c is st.
    Proof.
      intros [|k] st; [reflexivity|]. rewrite iter_loop_S. cbn [iter_next Nat.eqb in_rounds].
      rewrite !bind_ret_eq. apply one_round_ext. intros s.
      destruct k as [|k]; [reflexivity|]. rewrite iter_loop_S. cbn [iter_next Nat.eqb in_rounds].
      rewrite bind_ret_eq. cbn [after_round]. rewrite is_rt_eoi_cont, is_rt_eoi_self. reflexivity.
    Qed.

    (* ================================================================ the loop node *)
    (* loopRuntime.Eval of an `in` loop up to the evaluation of the iterator expression *)
    Lemma eval_loop_in f p hv hi ha hl v it body more sc is0 st c st0 is st1 :
      new_child sc p st = (ROk c, st0) ->
      alloc_is st0 = (ROk is, st1) ->
      eval_loop ev f p (Node NodeIN hv hi ha hl [v; it] :: body :: more) sc is0 st =
      bind (attempt (ev (1 :: 0 :: p) it c is)) (fun r =>
        match r with
        | inr e =>
          if is_rt e T_ISITER then
            if is_name it NodeIDENTIFIER then iter_loop ev f ItRange 0 p it body (loop_vars v) c is
            else unmod "iterator signal through an expression that is not a call"
          else if is_rt e T_EOI then ret VNull else fail e
        | inl (VList a len) => iter_loop ev f (ItList a len) 0 p it body (loop_vars v) c is
        | inl (VMap id) =>
          bind (get_map id) (fun m => bind get_st (fun st =>
            match printed_keys st m with
            | None => unmod "fmt.Sprint of a map key outside the modelled domain"
            | Some ks =>
              match sort_keys ks with
              | None => unmod "two map keys with the same printed form"
              | Some sorted => iter_loop ev f (ItMap id (map snd sorted)) 0 p it body (loop_vars v) c is
              end
            end))
        | inl w => iter_loop ev f (ItOne w) 0 p it body (loop_vars v) c is
        end) st1.
    Proof.
      intros Hc Hi. unfold eval_loop. rewrite (bind_ok_eq _ _ _ _ _ Hc).
      rewrite (bind_ok_eq _ _ _ _ _ Hi). reflexivity.
    Qed.

    Lemma eval_loop_list f p hv hi ha hl v it body more sc is0 st c st0 is st1 a len st2 :
      new_child sc p st = (ROk c, st0) ->
      alloc_is st0 = (ROk is, st1) ->
      ev (1 :: 0 :: p) it c is st1 = (ROk (VList a len), st2) ->
      eval_loop ev f p (Node NodeIN hv hi ha hl [v; it] :: body :: more) sc is0 st =
      in_rounds ev f (map (list_elem a len) (seq 0 len)) p body (loop_vars v) c is st2.
    Proof.
      intros Hc Hi He. rewrite (eval_loop_in _ _ _ _ _ _ _ _ _ _ _ _ _ _ _ _ _ Hc Hi).
      rewrite (bind_ok_eq _ _ _ _ _ (attempt_ok_eq _ _ _ _ He)).
      rewrite iter_loop_list. rewrite Nat.sub_0_r. reflexivity.
    Qed.

    Lemma eval_loop_map f p hv hi ha hl v it body more sc is0 st c st0 is st1 id st2 m ks sorted :
      new_child sc p st = (ROk c, st0) ->
      alloc_is st0 = (ROk is, st1) ->
      ev (1 :: 0 :: p) it c is st1 = (ROk (VMap id), st2) ->
      nth_error (st_maps st2) id = Some m ->
      printed_keys st2 m = Some ks ->
      sort_keys ks = Some sorted ->
      eval_loop ev f p (Node NodeIN hv hi ha hl [v; it] :: body :: more) sc is0 st =
      in_rounds ev f (map (map_entry id) (map snd sorted)) p body (loop_vars v) c is st2.
    Proof.
      intros Hc Hi He Hm Hk Hs. rewrite (eval_loop_in _ _ _ _ _ _ _ _ _ _ _ _ _ _ _ _ _ Hc Hi).
      rewrite (bind_ok_eq _ _ _ _ _ (attempt_ok_eq _ _ _ _ He)).
      assert (Hg : get_map id st2 = (ROk m, st2)).
      { unfold get_map, get_st, bind, of_opt. rewrite Hm. reflexivity. }
      rewrite (bind_ok_eq _ _ _ _ _ Hg). unfold get_st at 1. unfold bind at 1. rewrite Hk, Hs.
      rewrite iter_loop_map. reflexivity.
    Qed.

    Lemma eval_loop_one f p hv hi ha hl v it body more sc is0 st c st0 is st1 w st2 :
      new_child sc p st = (ROk c, st0) ->
      alloc_is st0 = (ROk is, st1) ->
      ev (1 :: 0 :: p) it c is st1 = (ROk w, st2) ->
      (forall a len, w <> VList a len) -> (forall id, w <> VMap id) ->
      eval_loop ev f p (Node NodeIN hv hi ha hl [v; it] :: body :: more) sc is0 st =
      in_rounds ev f [ret w] p body (loop_vars v) c is st2.
    Proof.
      intros Hc Hi He Hl Hm. rewrite (eval_loop_in _ _ _ _ _ _ _ _ _ _ _ _ _ _ _ _ _ Hc Hi).
      rewrite (bind_ok_eq _ _ _ _ _ (attempt_ok_eq _ _ _ _ He)).
      destruct w; try apply iter_loop_one; exfalso; [eapply Hl|eapply Hm]; reflexivity.
    Qed.

    (* an error of the iterator expression that is not the iterator signal: no round; the break
       signal is swallowed, everything else leaves the loop *)
    Lemma eval_loop_iter_error f p hv hi ha hl v it body more sc is0 st c st0 is st1 e st2 :
      new_child sc p st = (ROk c, st0) ->
      alloc_is st0 = (ROk is, st1) ->
      ev (1 :: 0 :: p) it c is st1 = (RErr e, st2) ->
      is_rt e T_ISITER = false ->
      eval_loop ev f p (Node NodeIN hv hi ha hl [v; it] :: body :: more) sc is0 st =
      if is_rt e T_EOI then (ROk VNull, st2) else (RErr e, st2).
    Proof.
      intros Hc Hi He Hn. rewrite (eval_loop_in _ _ _ _ _ _ _ _ _ _ _ _ _ _ _ _ _ Hc Hi).
      rewrite (bind_ok_eq _ _ _ _ _ (attempt_err_eq _ _ _ _ He)). rewrite Hn.
      destruct (is_rt e T_EOI); reflexivity.
    Qed.
  End WithEv.

  (* ================================================================ the element read in a round *)
  Lemma list_elem_reads a len i st cells v :
    nth_error (st_arrs st) a = Some cells -> i < len -> nth_error cells i = Some v ->
    list_elem a len i st = (ROk v, st).
  Proof.
    intros Ha Hi Hv. unfold list_elem, get_arr, get_st, bind, of_opt. rewrite Ha. cbn [ret lift].
    unfold go_index. rewrite Nat2Z.id, Hv.
    replace ((0 <=? Z.of_nat i)%Z && (Z.of_nat i <? Z.of_nat len)%Z) with true; [reflexivity|].
    symmetry. apply andb_true_iff. split; [apply Z.leb_le|apply Z.ltb_lt]; lia.
  Qed.

  Lemma map_entry_reads id k st m :
    nth_error (st_maps st) id = Some m ->
    map_entry id k st =
    (ROk (VList (length (st_arrs st)) 2),
     mkSt (st_scopes st) (st_arrs st ++ [[k; match m_get k m with Some v => v | None => VNull end]])
          (st_maps st) (st_funs st) (st_is st)).
  Proof.
    intros Hm. unfold map_entry, get_map, get_st, bind, of_opt. rewrite Hm. reflexivity.
  Qed.

  (* ================================================================ the order of the map keys *)
  Lemma ins_key_perm k : forall l l', ins_key k l = Some l' -> Permutation (k :: l) l'.
  Proof.
    induction l as [|x r IH]; intros l' E; cbn [ins_key] in E.
    - injection E as <-. apply Permutation_refl.
    - destruct (bytes_ltb (fst k) (fst x)); [injection E as <-; apply Permutation_refl|].
      destruct (bytes_ltb (fst x) (fst k)); [|discriminate].
      destruct (ins_key k r) as [r'|] eqn:Er; [|discriminate]. injection E as <-.
      eapply Permutation_trans; [apply perm_swap|]. apply perm_skip. apply IH. reflexivity.
  Qed.
  Lemma sort_keys_perm : forall l l', sort_keys l = Some l' -> Permutation l l'.
  Proof.
    induction l as [|k r IH]; intros l' E; cbn [sort_keys] in E.
    - injection E as <-. apply Permutation_refl.
    - destruct (sort_keys r) as [r'|] eqn:Er; [|discriminate].
      eapply Permutation_trans; [apply perm_skip; apply IH; reflexivity|]. apply ins_key_perm. exact E.
  Qed.

  Definition key_lt (x y : bytes * value) : Prop := bytes_lt (fst x) (fst y).

  Lemma bytes_ltb_trans : forall a b c, bytes_ltb a b = true -> bytes_ltb b c = true -> bytes_ltb a c = true.
  Proof.
    induction a as [|x a IH]; intros [|y b] [|z c] H1 H2; cbn [bytes_ltb] in *; try discriminate; try reflexivity.
    apply orb_true_iff in H1. apply orb_true_iff in H2. apply orb_true_iff.
    destruct H1 as [H1|H1], H2 as [H2|H2].
    - left. apply N.ltb_lt in H1, H2. apply N.ltb_lt. lia.
    - apply andb_true_iff in H2 as [H2 _]. apply N.eqb_eq in H2. subst. left. exact H1.
    - apply andb_true_iff in H1 as [H1 _]. apply N.eqb_eq in H1. subst. left. exact H2.
    - apply andb_true_iff in H1 as [E1 H1]. apply andb_true_iff in H2 as [E2 H2].
      apply N.eqb_eq in E1, E2. subst. right. rewrite N.eqb_refl. cbn [andb]. eapply IH; eassumption.
  Qed.
  Lemma bytes_ltb_irrefl : forall a, bytes_ltb a a = false.
  Proof.
    induction a as [|x a IH]; [reflexivity|]. cbn [bytes_ltb]. rewrite N.ltb_irrefl, N.eqb_refl, IH. reflexivity.
  Qed.
  (* the order is total on different strings *)
  Lemma bytes_ltb_total : forall a b, bytes_ltb a b = false -> bytes_ltb b a = false -> a = b.
  Proof.
    induction a as [|x a IH]; intros [|y b] H1 H2; cbn [bytes_ltb] in *; try discriminate; [reflexivity|].
    apply orb_false_iff in H1 as [L1 R1]. apply orb_false_iff in H2 as [L2 R2].
    apply N.ltb_ge in L1, L2. assert (x = y) by lia. subst. rewrite N.eqb_refl in R1, R2. cbn [andb] in R1, R2.
    f_equal. apply IH; assumption.
  Qed.

  Lemma ins_key_sorted k : forall l l',
    StronglySorted key_lt l -> ins_key k l = Some l' -> StronglySorted key_lt l'.
  Proof.
    induction l as [|x r IH]; intros l' Hs E; cbn [ins_key] in E.
    - injection E as <-. constructor; constructor.
    - inversion Hs as [|? ? Hr Hx]; subst.
      destruct (bytes_ltb (fst k) (fst x)) eqn:E1.
      + injection E as <-. constructor; [exact Hs|]. constructor; [exact E1|].
        eapply Forall_impl; [|exact Hx]. intros y Hy. unfold key_lt, bytes_lt in *.
        eapply bytes_ltb_trans; eassumption.
      + destruct (bytes_ltb (fst x) (fst k)) eqn:E2; [|discriminate].
        destruct (ins_key k r) as [r'|] eqn:Er; [|discriminate]. injection E as <-.
        constructor; [apply IH; [exact Hr|reflexivity]|].
        apply (Permutation_Forall (ins_key_perm _ _ _ Er)). constructor; [exact E2|exact Hx].
  Qed.
  Lemma sort_keys_sorted : forall l l', sort_keys l = Some l' -> StronglySorted key_lt l'.
  Proof.
    induction l as [|k r IH]; intros l' E; cbn [sort_keys] in E.
    - injection E as <-. constructor.
    - destruct (sort_keys r) as [r'|] eqn:Er; [|discriminate].
      eapply ins_key_sorted; [|exact E]. apply IH. reflexivity.
  Qed.

  (* sort_keys fails exactly when two keys have the same printed form *)
  Lemma ins_key_none k : forall l, ins_key k l = None -> In (fst k) (map fst l).
  Proof.
    induction l as [|x r IH]; intros E; cbn [ins_key] in E; [discriminate|].
    destruct (bytes_ltb (fst k) (fst x)) eqn:E1; [discriminate|].
    destruct (bytes_ltb (fst x) (fst k)) eqn:E2.
    - destruct (ins_key k r) eqn:Er; [discriminate|]. right. apply IH. reflexivity.
    - left. symmetry. apply bytes_ltb_total; assumption.
  Qed.
  Lemma sort_keys_total : forall l, NoDup (map fst l) -> exists l', sort_keys l = Some l'.
  Proof.
    induction l as [|k r IH]; intros Hn; [eexists; reflexivity|].
    cbn [map] in Hn. inversion Hn as [|? ? Hk Hr]; subst. destruct (IH Hr) as [r' Er].
    cbn [sort_keys]. rewrite Er. destruct (ins_key k r') as [l'|] eqn:E; [eauto|].
    exfalso. apply Hk. apply ins_key_none in E.
    eapply Permutation_in; [|exact E]. apply Permutation_map. apply Permutation_sym. apply sort_keys_perm. exact Er.
  Qed.
  Lemma sort_keys_some_nodup : forall l l', sort_keys l = Some l' -> NoDup (map fst l).
  Proof.
    intros l l' E. pose proof (sort_keys_sorted _ _ E) as Hs. pose proof (sort_keys_perm _ _ E) as Hp.
    eapply Permutation_NoDup; [apply Permutation_map; apply Permutation_sym; exact Hp|].
    clear E Hp. induction Hs as [|x r Hr IH Hx]; [constructor|]. cbn [map]. constructor; [|exact IH].
    intros Hin. apply in_map_iff in Hin. destruct Hin as (y & Ey & Hy).
    rewrite Forall_forall in Hx. specialize (Hx y Hy). unfold key_lt, bytes_lt in Hx.
    rewrite Ey, bytes_ltb_irrefl in Hx. discriminate.
  Qed.

  (* a strictly sorted list is determined by its elements: the order of the rounds is THE
     string order of the printed keys, whatever order the map enumerates its keys in *)
  Lemma sorted_perm_unique : forall l1 l2 : list (bytes * value),
    StronglySorted key_lt l1 -> StronglySorted key_lt l2 -> Permutation l1 l2 -> l1 = l2.
  Proof.
    induction l1 as [|x r1 IH]; intros l2 H1 H2 Hp.
    - apply Permutation_nil in Hp. subst. reflexivity.
    - destruct l2 as [|y r2]; [apply Permutation_sym, Permutation_nil in Hp; discriminate|].
      inversion H1 as [|? ? Hr1 Hx]; subst. inversion H2 as [|? ? Hr2 Hy]; subst.
      rewrite Forall_forall in Hx, Hy.
      assert (Exy : x = y).
      { assert (Ix : In x (y :: r2)) by (eapply Permutation_in; [exact Hp|left; reflexivity]).
        assert (Iy : In y (x :: r1)) by (eapply Permutation_in; [apply Permutation_sym; exact Hp|left; reflexivity]).
        destruct Ix as [->|Ix]; [reflexivity|]. destruct Iy as [->|Iy]; [reflexivity|].
        specialize (Hx _ Iy). specialize (Hy _ Ix). unfold key_lt, bytes_lt in Hx, Hy.
        pose proof (bytes_ltb_trans _ _ _ Hx Hy) as C. rewrite bytes_ltb_irrefl in C. discriminate. }
      subst y. f_equal. apply IH; try assumption. eapply Permutation_cons_inv. exact Hp.
  Qed.

  (* printed_keys: the keys of the map in the map's order, each with its printed form *)
  Lemma printed_keys_spec st : forall m ks,
    printed_keys st m = Some ks ->
    map snd ks = map fst m /\ Forall (fun p => sprint 8 st (snd p) = Some (fst p)) ks.
  Proof.
    unfold printed_keys. induction m as [|kv r IH]; intros ks E; cbn [map all_some] in E.
    - injection E as <-. split; [reflexivity|constructor].
    - destruct (sprint 8 st (fst kv)) as [s|] eqn:Es; [|discriminate].
      destruct (all_some _) as [x|] eqn:Ex; [|discriminate]. injection E as <-.
      destruct (IH _ eq_refl) as [I1 I2]. split; [cbn [map snd]; rewrite I1; reflexivity|].
      constructor; [exact Es|exact I2].
  Qed.

  (* the keys of the rounds of a map loop: every key of the map exactly once, in the strict string
     order of the printed forms *)
  Lemma map_loop_key_order st m ks sorted :
    printed_keys st m = Some ks -> sort_keys ks = Some sorted ->
    Permutation (map fst m) (map snd sorted) /\
    Forall (fun p => sprint 8 st (snd p) = Some (fst p)) sorted /\
    StronglySorted bytes_lt (map fst sorted).
  Proof.
    intros Hk Hs. destruct (printed_keys_spec _ _ _ Hk) as [I1 I2].
    pose proof (sort_keys_perm _ _ Hs) as Hp. split; [|split].
    - rewrite <- I1. apply Permutation_map. exact Hp.
    - eapply Permutation_Forall; eassumption.
    - pose proof (sort_keys_sorted _ _ Hs) as H. clear - H.
      induction H as [|x r Hr IH Hx]; [constructor|]. cbn [map]. constructor; [exact IH|].
      apply Forall_map. exact Hx.
  Qed.
End L.
