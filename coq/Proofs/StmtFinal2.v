(* Proofs/StmtFinal2.v — C08, statement level, extended guards (Spec/StmtFormatSpec2.v): the
   structural statement printer is the correspondence-checked printer model [pp] on the
   embedded trees of try / except / otherwise / finally and func as well (as
   Proofs/StmtPrinterEq.v for the other kinds); program-level printer equality, round trip in
   terms of [pp], idempotence. *)
From Coq Require Import List String NArith Bool Arith Lia ZArith.
From Ecal Require Import Common.Bytes Common.Ast gen.Tokens gen.Grammar
     Model.Printer Proofs.PrinterProofs Model.StmtPrinter Spec.StmtFormatSpec Spec.StmtFormatSpec2
     Proofs.StmtExpr Proofs.StmtProofs Proofs.StmtPrinterEq Proofs.StmtFinal Proofs.StmtTop2.
Import ListNotations.
Local Open Scope string_scope.
Local Open Scope nat_scope.
Local Open Scope list_scope.

(* ---------------------------------------------------------------------------------- *)
(* the special forms of the printer, by computation *)

Lemma asm_try v cs k1 r : assemble_special true NodeTRY v cs (k1 :: r) = kw TokenTRY :: block k1 ++ concat r.
Proof. reflexivity. Qed.
Lemma asm_except v cs k r :
  assemble_special true NodeEXCEPT v cs (k :: r) = kw TokenEXCEPT :: except_heads (combine cs (k :: r)) ++ block (last_kid (k :: r)).
Proof. reflexivity. Qed.
Lemma asm_as v cs k1 : assemble_special true NodeAS v cs [k1] = kw TokenAS :: k1.
Proof. reflexivity. Qed.
Lemma asm_otherwise v cs k1 : assemble_special true NodeOTHERWISE v cs [k1] = kw TokenOTHERWISE :: block k1.
Proof. reflexivity. Qed.
Lemma asm_finally v cs k1 : assemble_special true NodeFINALLY v cs [k1] = kw TokenFINALLY :: block k1.
Proof. reflexivity. Qed.
Lemma asm_func v cs k1 k2 k3 : assemble_special true NodeFUNC v cs [k1; k2; k3] = kw TokenFUNC :: k1 ++ k2 ++ block k3.
Proof. reflexivity. Qed.
Lemma asm_params v cs ks : assemble_special true NodePARAMS v cs ks = kw TokenLPAREN :: join_comma ks ++ [kw TokenRPAREN].
Proof. reflexivity. Qed.

Lemma pp_strn p : pp (strn p) = [strt p].
Proof. reflexivity. Qed.
Lemma pp_identn x : pp (identn x) = [identt x].
Proof. reflexivity. Qed.

Lemma plain_strn p : plain (strn p).
Proof. left. vm_compute. reflexivity. Qed.
Lemma plain_identn x : plain (identn x).
Proof. left. vm_compute. reflexivity. Qed.

Lemma pp_as x : pp (knode NodeAS [identn x]) = [kw TokenAS; identt x].
Proof.
  unfold knode. rewrite pp_other; [| other | constructor; [apply plain_identn | constructor]].
  cbn [map]. rewrite asm_as, pp_identn. reflexivity.
Qed.

Lemma last_kid_app (A : list (list item)) k : last_kid (A ++ [k]) = k.
Proof.
  induction A as [|a A IH]; [reflexivity|]. cbn [app]. destruct (A ++ [k]) eqn:E; [destruct A; discriminate|].
  exact IH.
Qed.

Lemma combine_map_pp cs : combine cs (map pp cs) = map (fun c => (c, pp c)) cs.
Proof. induction cs as [|c cs IH]; [reflexivity|]. cbn [map combine]. rewrite IH. reflexivity. Qed.

(* ---------------------------------------------------------------------------------- *)
(* the head of an except clause *)

Definition npairs (names : list (bytes * bool)) : list (node * list item) :=
  map (fun p => (strn p, [strt p])) names.
Definition bpairs (b : ebind) : list (node * list item) :=
  match b with
  | EBNone => []
  | EBAs x => [(knode NodeAS [identn x], [kw TokenAS; identt x])]
  | EBId x => [(identn x, [identt x])]
  end.

Lemma heads_eq names bind s ks :
  except_heads (npairs names ++ bpairs bind ++ [(knode NodeSTATEMENTS s, ks)]) = pp_names names bind ++ pp_bind bind.
Proof.
  induction names as [|p r IH].
  - destruct bind; reflexivity.
  - destruct r as [|p2 r'].
    + destruct bind; reflexivity.
    + change (pp_names (p :: p2 :: r') bind) with (strt p :: kw TokenCOMMA :: pp_names (p2 :: r') bind).
      change (npairs (p :: p2 :: r')) with ((strn p, [strt p]) :: (strn p2, [strt p2]) :: npairs r').
      change (npairs (p2 :: r')) with ((strn p2, [strt p2]) :: npairs r') in IH.
      cbn [app] in *. rewrite except_heads_cons, IH. cbn [n_name strn String.eqb Ascii.eqb Bool.eqb NodeSTRING negb andb].
      set (REST := npairs r' ++ bpairs bind ++ [(knode NodeSTATEMENTS s, ks)]).
      assert (H : exists x R, REST = x :: R).
      { unfold REST. destruct (npairs r'); [|cbn [app]; eauto]. destruct (bpairs bind); cbn [app]; eauto. }
      destruct H as (x & R & ->). reflexivity.
Qed.

Lemma pairs_eq names bind (stm : node) :
  map (fun c => (c, pp c)) (map strn names ++ bind_nodes bind ++ [stm]) = npairs names ++ bpairs bind ++ [(stm, pp stm)].
Proof.
  rewrite !map_app. cbn [map]. f_equal.
  - unfold npairs. rewrite map_map. reflexivity.
  - f_equal. destruct bind as [| x | x]; cbn [bind_nodes bpairs map]; [reflexivity | rewrite pp_as; reflexivity | reflexivity].
Qed.

Lemma plain_except_kids names bind (stm : node) : plain stm -> Forall plain (map strn names ++ bind_nodes bind ++ [stm]).
Proof.
  intros H. apply Forall_app. split.
  - apply Forall_forall. intros c Hc. apply in_map_iff in Hc. destruct Hc as (p & <- & _). apply plain_strn.
  - apply Forall_app. split; [|constructor; [exact H | constructor]].
    destruct bind; cbn [bind_nodes]; [constructor | |]; (constructor; [|constructor]);
      [apply plain_knode; vm_compute; reflexivity | apply plain_identn].
Qed.

Lemma pp_except names bind s :
  Forall plain s ->
  pp (knode NodeEXCEPT (map strn names ++ bind_nodes bind ++ [knode NodeSTATEMENTS s])) =
  kw TokenEXCEPT :: pp_names names bind ++ pp_bind bind ++ block (pp (knode NodeSTATEMENTS s)).
Proof.
  intros Hs. unfold knode at 1. rewrite pp_other; [| other |].
  2:{ apply plain_except_kids. apply plain_knode. vm_compute. reflexivity. }
  set (cs := map strn names ++ bind_nodes bind ++ [knode NodeSTATEMENTS s]).
  assert (E : exists k r, map pp cs = k :: r).
  { unfold cs. destruct (map strn names); [|cbn [app map]; eauto]. destruct (bind_nodes bind); cbn [app map]; eauto. }
  destruct E as (k & r & E). rewrite E, asm_except, <- E.
  rewrite combine_map_pp. unfold cs. rewrite pairs_eq, heads_eq.
  rewrite app_assoc, map_app. cbn [map]. rewrite last_kid_app, <- app_assoc. reflexivity.
Qed.

(* ---------------------------------------------------------------------------------- *)
(* statements *)

Lemma plain_embed2 s : wfS2 s -> plain (embed s).
Proof.
  destruct s; cbn [wfS2 embed]; intros W;
    try (apply plain_knode; vm_compute; reflexivity).
  apply plain_erase; exact W.
Qed.

Definition EqS2 (s : stmt) : Prop := wfS2 s -> pp (embed s) = pp_stmt s.
Definition EqB2 (b : sblock) : Prop :=
  wfB2 b -> Forall plain (embed_block b) /\ lines_sep (map pp (embed_block b)) = pp_lines b
           /\ lines_more (map pp (embed_block b)) = pp_more b.

(* the children of an if node after the first pair *)
Definition EqT2 (r : iftail) : Prop :=
  wfT2 r -> forall pre : list node,
    Forall plain (embed_tail r) /\
    if_tail (combine (embed_tail r) (map pp (embed_tail r))) = pp_tail r.

Lemma eqb_block2 b : EqB2 b ->
  wfB2 b -> pp (knode NodeSTATEMENTS (embed_block b)) = pp_lines b /\ plain (knode NodeSTATEMENTS (embed_block b)).
Proof.
  intros H W. destruct (H W) as (Hp & He & _). split; [rewrite pp_statements by exact Hp; exact He|].
  apply plain_knode. vm_compute. reflexivity.
Qed.

Definition EqX2 (ex : StmtPrinter.excepts) : Prop :=
  wfX2 ex -> Forall plain (embed_excepts ex) /\ concat (map pp (embed_excepts ex)) = pp_excepts ex.
Definition EqO2 (o : oblock) : Prop :=
  wfO2 o ->
  (Forall plain (embed_oblock NodeOTHERWISE o) /\ concat (map pp (embed_oblock NodeOTHERWISE o)) = pp_oblock TokenOTHERWISE o) /\
  (Forall plain (embed_oblock NodeFINALLY o) /\ concat (map pp (embed_oblock NodeFINALLY o)) = pp_oblock TokenFINALLY o).

Lemma pp_params ps : Forall wfe ps ->
  pp (knode NodePARAMS (map erase ps)) = kw TokenLPAREN :: join_comma (map pp ps) ++ [kw TokenRPAREN].
Proof.
  intros H. unfold knode. rewrite pp_other; [| other |].
  - rewrite asm_params. do 3 f_equal. rewrite map_map. apply map_ext_in. intros e He.
    apply pp_erase'. rewrite Forall_forall in H. apply H; exact He.
  - apply Forall_forall. intros c Hc. apply in_map_iff in Hc. destruct Hc as (e & <- & He).
    apply plain_erase. rewrite Forall_forall in H. apply H; exact He.
Qed.

Theorem printer_eq2 :
  (forall s, EqS2 s) /\ (forall b, EqB2 b) /\ (forall r, EqT2 r) /\
  (forall (e : StmtPrinter.excepts), EqX2 e) /\ (forall (o : oblock), EqO2 o).
Proof.
  apply stmt_mutind.
  - (* expr *) intros e W. cbn [wfS2] in W. cbn [embed]. apply pp_erase'; exact W.
  - (* return *) intros _. reflexivity.
  - intros e W. cbn [wfS2] in W. cbn [embed]. unfold knode. rewrite pp_other; [| other | constructor; [apply plain_erase; exact W | constructor]].
    cbn [map]. rewrite pp_erase' by exact W. reflexivity.
  - (* if *) intros g b Hb r Hr W. cbn [wfS2] in W. destruct W as (Wg & Wb & Wr).
    destruct (eqb_block2 b Hb Wb) as [Eb Pb]. destruct (Hr Wr []) as [Pr Er].
    cbn [embed]. unfold knode at 1. rewrite pp_other; [| other |].
    2:{ constructor; [apply plain_knode; vm_compute; reflexivity|]. constructor; [exact Pb | exact Pr]. }
    cbn [map]. rewrite pp_guard by exact Wg. rewrite Eb.
    unfold assemble_special. cbn [String.eqb Ascii.eqb Bool.eqb NodeIF NodeSTATEMENTS NodeFUNCCALL NodeLIST NodeMAP NodePARAMS NodeIDENTIFIER].
    cbn [combine skipn]. rewrite Er. reflexivity.
  - (* for *) intros g b Hb W. cbn [wfS2] in W. destruct W as (Wg & Wb).
    destruct (eqb_block2 b Hb Wb) as [Eb Pb].
    cbn [embed]. unfold knode at 1. rewrite pp_other; [| other |].
    2:{ constructor; [|constructor; [exact Pb|constructor]].
        destruct (root_id g =? TokenIN); [apply plain_erase; exact Wg | apply plain_knode; vm_compute; reflexivity]. }
    cbn [map]. rewrite Eb.
    assert (Hg : pp (if root_id g =? TokenIN then erase g else knode NodeGUARD [erase g]) = pp g).
    { destruct (root_id g =? TokenIN); [apply pp_erase' | apply pp_guard]; exact Wg. }
    rewrite Hg. reflexivity.
  - (* mutex *) intros x b Hb W. cbn [wfS2] in W.
    destruct (eqb_block2 b Hb W) as [Eb Pb].
    cbn [embed]. unfold knode at 1. rewrite pp_other; [| other |].
    2:{ constructor; [left; vm_compute; reflexivity|]. constructor; [exact Pb|constructor]. }
    cbn [map]. rewrite Eb. reflexivity.
  - (* try *) intros b Hb ex Hx ow Ho fin Hf W. cbn [wfS2] in W. destruct W as (Wb & Wx & Wo & Wf).
    destruct (eqb_block2 b Hb Wb) as [Eb Pb]. destruct (Hx Wx) as [Px Ex].
    destruct (Ho Wo) as [[Po Eo] _]. destruct (Hf Wf) as [_ [Pf Ef]].
    cbn [embed]. unfold knode at 1. rewrite pp_other; [| other |].
    2:{ constructor; [exact Pb|]. apply Forall_app. split; [exact Px|]. apply Forall_app. split; assumption. }
    cbn [map]. rewrite asm_try, Eb, !map_app, !concat_app, Ex, Eo, Ef. reflexivity.
  - (* func *) intros x ps b Hb W. cbn [wfS2] in W. destruct W as (Wps & Wb).
    destruct (eqb_block2 b Hb Wb) as [Eb Pb].
    cbn [embed]. unfold knode at 1. rewrite pp_other; [| other |].
    2:{ constructor; [apply plain_identn|]. constructor; [apply plain_knode; vm_compute; reflexivity|].
        constructor; [exact Pb | constructor]. }
    cbn [map]. rewrite asm_func, pp_identn, (pp_params ps Wps), Eb.
    change (pp_stmt (SFunc x ps b)) with
      (kw TokenFUNC :: identt x :: kw TokenLPAREN :: join_comma (map pp ps) ++ kw TokenRPAREN :: block (pp_lines b)).
    cbn [app]. rewrite <- app_assoc. reflexivity.
  - (* BNil *) intros _. split; [constructor | split; reflexivity].
  - (* BCons *) intros s Hs b Hb W. cbn [wfB2] in W. destruct W as (Ws & Wr). destruct (Hb Wr) as (Pb & _ & Eb).
    cbn [embed_block map lines_sep lines_more pp_lines pp_more]. split; [constructor; [apply plain_embed2; exact Ws | exact Pb]|].
    rewrite (Hs Ws), Eb. split; reflexivity.
  - (* INone *) intros _ _. split; [constructor | reflexivity].
  - (* IElse *) intros b Hb W _. cbn [wfT2] in W. destruct (eqb_block2 b Hb W) as [Eb Pb].
    cbn [embed_tail]. split; [constructor; [apply plain_knode; vm_compute; reflexivity | constructor; [exact Pb | constructor]]|].
    cbn [map combine if_tail]. rewrite Eb. rewrite first_child_guard. cbn [n_name knode]. rewrite String.eqb_refl, app_nil_r. reflexivity.
  - (* IElif *) intros g b Hb r Hr W _. cbn [wfT2] in W. destruct W as (Wg & Wb & Wr & Hlast).
    destruct (eqb_block2 b Hb Wb) as [Eb Pb]. destruct (Hr Wr []) as [Pr Er].
    cbn [embed_tail]. split; [constructor; [apply plain_knode; vm_compute; reflexivity | constructor; [exact Pb | exact Pr]]|].
    cbn [map combine]. rewrite pp_guard by exact Wg. rewrite Eb.
    destruct r as [|b'|g' b' r'].
    + cbn [embed_tail map combine if_tail]. rewrite first_child_guard, erase_name.
      apply String.eqb_neq in Hlast. rewrite Hlast. cbn [pp_tail]. rewrite !app_nil_r. reflexivity.
    + cbn [if_tail]. cbn [embed_tail map combine] in *. rewrite Er. cbn [pp_tail app]. rewrite <- app_assoc. reflexivity.
    + cbn [if_tail]. cbn [embed_tail map combine] in *. rewrite Er. cbn [pp_tail app]. rewrite <- app_assoc. reflexivity.
  - (* ENil *) intros _. split; [constructor | reflexivity].
  - (* ECons *) intros names bind b Hb r Hr W. cbn [wfX2] in W. destruct W as (_ & Wb & Wr).
    destruct (Hb Wb) as (Pb & Eb & _). destruct (Hr Wr) as [Pr Er].
    cbn [embed_excepts map concat pp_excepts]. split; [constructor; [apply plain_knode; vm_compute; reflexivity | exact Pr]|].
    rewrite pp_except by exact Pb. rewrite pp_statements by exact Pb. rewrite Eb, Er.
    cbn [app]. rewrite <- !app_assoc. reflexivity.
  - (* ONone *) intros _. split; (split; [constructor | reflexivity]).
  - (* OSome *) intros b Hb W. cbn [wfO2] in W. destruct (eqb_block2 b Hb W) as [Eb Pb].
    cbn [embed_oblock map concat pp_oblock].
    split; (split; [constructor; [apply plain_knode; vm_compute; reflexivity | constructor]|]);
      unfold knode at 1; (rewrite pp_other; [| other | constructor; [exact Pb | constructor]]); cbn [map].
    + rewrite asm_otherwise, Eb, app_nil_r. reflexivity.
    + rewrite asm_finally, Eb, app_nil_r. reflexivity.
Qed.

(* ---------------------------------------------------------------------------------- *)
(* programs *)

Lemma prog_printer_eq2 b : wfP2 b -> pp (embed_prog b) = pp_prog b.
Proof.
  intros (Hne & W & _). destruct printer_eq2 as (HS & HB & _).
  destruct b as [|s [|s2 r]]; [congruence | |].
  - cbn [wfB2] in W. destruct W as (Ws & _). cbn [embed_prog pp_prog]. apply HS; exact Ws.
  - cbn [embed_prog pp_prog]. destruct (HB (BCons s (BCons s2 r)) W) as (Hp & He & _).
    rewrite pp_statements by exact Hp. exact He.
Qed.

Theorem prog_idempotent2 b : wfP2 b ->
  forall l0 le epos,
  exists t', parsed (Parser.parse (source_tokens l0 le epos (pp_prog b))) = Some t' /\ pp t' = pp_prog b.
Proof.
  intros W l0 le epos. destruct (prog_roundtrip2 b W l0 le epos) as (t' & Hp & Hs).
  exists t'. split; [exact Hp|]. rewrite <- pp_strip, Hs. apply prog_printer_eq2; exact W.
Qed.

(* the round trip in terms of the correspondence-checked printer model itself *)
Theorem prog_roundtrip_pp2 b : wfP2 b ->
  forall l0 le epos,
  exists t', parsed (Parser.parse (source_tokens l0 le epos (pp (embed_prog b)))) = Some t' /\ strip t' = embed_prog b.
Proof. intros W l0 le epos. rewrite prog_printer_eq2 by exact W. apply prog_roundtrip2; exact W. Qed.
