(* Proofs/PoolLiveness.v — termination of the pool's internal activity (the "eventually" of C09).

   An INTERNAL step ([Pool.internal]) continues something that was already started: a worker's
   next lock region, the rest of an AddTask, the wake-up owed by / the rest of a Broadcast.
   New calls into the pool (AddTask's Push, SetWorkerCount's kill / grow / spawn, the
   observations and the fresh periodic Broadcast of WaitAll / JoinAll) are not internal.

   1. [measure]: a natural number that EVERY internal step strictly decreases, in every state
      (no invariant needed).  Hence internal runs are finite, their length is bounded by the
      measure of the state they start in: no fairness assumption is needed to speak about
      "eventually" - every maximal internal run is finite.
   2. A state without an enabled internal step ([quiescent]) that is reachable has the shape
      [asleep]: L free, no AddTask / Broadcast in flight, every worker inside Wait, no wake-up
      left; with the invariant of PoolProofs.v: nothing queued, nothing running, workerKill = 0
      (if a worker is left).
   3. Together: every maximal internal run from a reachable state in which at least one worker
      is going to stay ends with every accepted task executed, and with exactly
      [live workers - workerKill] workers (the count a non-overlapping resize asked for). *)
From Coq Require Import List ZArith Bool Arith Lia ZifyNat ZifyBool Permutation.
From Ecal Require Import Common.Sched Model.Pool Spec.PoolSpec Proofs.PoolProofs.
Import ListNotations.
Open Scope nat_scope.

(* ---------------------------------------------------------------- weighted sums over threads *)

Fixpoint wsum {A} (f : A -> nat) (l : list (nat * A)) : nat :=
  match l with
  | [] => 0
  | (_, v) :: r => f v + wsum f r
  end.

Lemma wsum_update {A} (f : A -> nat) k v v' l :
  lookup k l = Some v -> wsum f (update k v' l) + f v = wsum f l + f v'.
Proof.
  induction l as [|[k0 v0] r IH]; simpl; [discriminate|].
  destruct (Nat.eqb k k0) eqn:E.
  - intros [= ->]. simpl. lia.
  - intros H. simpl. specialize (IH H). lia.
Qed.

Lemma wsum_remove {A} (f : A -> nat) k v l :
  lookup k l = Some v -> wsum f (remove_key k l) + f v = wsum f l.
Proof.
  induction l as [|[k0 v0] r IH]; simpl; [discriminate|].
  destruct (Nat.eqb k k0) eqn:E.
  - intros [= ->]. lia.
  - intros H. simpl. specialize (IH H). lia.
Qed.

Lemma wsum_mono {A} (f g : A -> nat) l : (forall v, f v <= g v) -> wsum f l <= wsum g l.
Proof.
  intros H. induction l as [|[k0 v0] r IH]; simpl; [lia|]. specialize (H v0). lia.
Qed.

Lemma length_remove_first t q : mem t q = true -> length (remove_first t q) + 1 = length q.
Proof.
  induction q as [|x r IH]; simpl; [discriminate|].
  destruct (Nat.eqb t x); simpl; [lia|]. intros H; specialize (IH H); lia.
Qed.

(* ---------------------------------------------------------------- the measure *)

(* Rank of a worker: its distance to the next sleep, along the loop
     Running/AfterIdle -> Head -> AfterKill -> PoppedNil -> IdleReg -> HoldL0 -> KillRead0
       -> DecidedWait -> Waiting            (the re-checks find nothing to do)
     Waiting -(consumes a wake-up)-> WokenNeedL -> HoldL2 -> AfterIdle -> Head
     AfterKill -(consumes a queued task)-> Running -> Head
   A worker between its empty Pop and its re-check returns to Head WITHOUT consuming anything
   if the re-check sees a task (bq: the queue is not empty) or a kill request (bk: workerKill
   <> 0).  In an internal run the queue never grows and workerKill never leaves 0, so this
   detour is taken at most once per worker: such a worker is ranked above the whole loop. *)
Definition wrank (bq bk : bool) (p : wpc) : nat :=
  match p with
  | Waiting => 0
  | DecidedWait => 1
  | Exiting => 1
  | KillRead0 => if bq then 10 else 2
  | HoldL0 => if bq || bk then 11 else 3
  | IdleReg => if bq || bk then 12 else 4
  | PoppedNil => if bq || bk then 13 else 5
  | AfterKill false => if bk then 14 else 6
  | AfterKill true => 6
  | Head => 7
  | AfterIdle => 8
  | Running _ => 8
  | HoldL2 => 9
  | WokenNeedL => 10
  end.

(* an AddTask owes one Signal = at most one wake-up (worth 11) *)
Definition arank (p : apc) : nat :=
  match p with APushed => 14 | AHoldL => 13 | ASignalled => 1 end.

(* a Broadcast wakes at most every worker: its 11 * (number of workers) is accounted for
   separately ([isEb]: the Broadcast is still to come) *)
Definition erank (p : epc) : nat :=
  match p with EPending => 3 | EHoldL _ => 2 | EHeld => 1 end.
Definition isEb (p : epc) : bool :=
  match p with EPending | EHoldL _ => true | EHeld => false end.

Definition qb (q : nat) : bool := negb (Nat.eqb q 0).
Definition kb (k : Z) : bool := negb (Z.eqb k 0).

Definition mm (q : nat) (k : Z) (T : nat)
              (ws : list (nat * wpc)) (ads : list (nat * apc)) (es : list (nat * epc)) : nat :=
  wsum (wrank (qb q) (kb k)) ws + wsum arank ads + wsum erank es
  + cnt isEb es * (11 * length ws)
  + 3 * q + 11 * T.

(* every queued task is worth 3 (Pop + run + back to Head), every unconsumed wake-up 11 *)
Definition measure (s : state) : nat :=
  mm (length (queue s)) (kill s) (tokens s) (workers s) (adders s) (envs s).

Lemma qb_le q' q : q' <= q -> qb q' = true -> qb q = true.
Proof. unfold qb. destruct q', q; simpl; try reflexivity; try discriminate. lia. Qed.

Lemma wrank_mono bq bk bq' bk' p :
  (bq' = true -> bq = true) -> (bk' = true -> bk = true) -> wrank bq' bk' p <= wrank bq bk p.
Proof.
  intros Hq Hk. destruct bq', bk', bq, bk, p as [| [|] | | | | | | | | | | |]; simpl;
    try lia; exfalso; (discriminate (Hq eq_refl) || discriminate (Hk eq_refl)).
Qed.

(* one worker moves from p to p'; queue, workerKill and wake-ups may change with it *)
Lemma mm_wstep q k T q' k' T' ws ads es w p p' :
  lookup w ws = Some p ->
  (qb q' = true -> qb q = true) -> (kb k' = true -> kb k = true) ->
  wrank (qb q') (kb k') p' + 3 * q' + 11 * T' < wrank (qb q') (kb k') p + 3 * q + 11 * T ->
  mm q' k' T' (update w p' ws) ads es < mm q k T ws ads es.
Proof.
  intros E Hq Hk Hlt. unfold mm.
  pose proof (wsum_update (wrank (qb q') (kb k')) w p p' ws E) as HU.
  pose proof (wsum_mono (wrank (qb q') (kb k')) (wrank (qb q) (kb k)) ws
                (fun v => wrank_mono _ _ _ _ v Hq Hk)) as HM.
  rewrite length_update.
  set (P := cnt isEb es * (11 * length ws)) in *. lia.
Qed.

Lemma mm_wexit q k T ws ads es w :
  lookup w ws = Some Exiting ->
  mm q k T (remove_key w ws) ads es < mm q k T ws ads es.
Proof.
  intros E. unfold mm.
  pose proof (wsum_remove (wrank (qb q) (kb k)) w Exiting ws E) as HU. simpl in HU.
  pose proof (length_remove w Exiting ws E) as HL.
  assert (HP : cnt isEb es * (11 * length (remove_key w ws)) <= cnt isEb es * (11 * length ws)).
  { apply Nat.mul_le_mono_l. lia. }
  set (P := cnt isEb es * (11 * length ws)) in *.
  set (P' := cnt isEb es * (11 * length (remove_key w ws))) in *. lia.
Qed.

Lemma mm_astep q k T T' ws ads es a p p' :
  lookup a ads = Some p ->
  arank p' + 11 * T' < arank p + 11 * T ->
  mm q k T' ws (update a p' ads) es < mm q k T ws ads es.
Proof.
  intros E Hlt. unfold mm.
  pose proof (wsum_update arank a p p' ads E) as HU.
  set (P := cnt isEb es * (11 * length ws)) in *. lia.
Qed.

Lemma mm_aexit q k T ws ads es a :
  lookup a ads = Some ASignalled ->
  mm q k T ws (remove_key a ads) es < mm q k T ws ads es.
Proof.
  intros E. unfold mm.
  pose proof (wsum_remove arank a ASignalled ads E) as HU. simpl in HU.
  set (P := cnt isEb es * (11 * length ws)) in *. lia.
Qed.

(* an environment thread moves on without broadcasting *)
Lemma mm_estep q k T ws ads es e p p' :
  lookup e es = Some p -> isEb p' = isEb p -> erank p' < erank p ->
  mm q k T ws ads (update e p' es) < mm q k T ws ads es.
Proof.
  intros E Hb Hlt. unfold mm.
  pose proof (wsum_update erank e p p' es E) as HU.
  pose proof (cnt_update isEb e p p' es E) as HC.
  assert (HE : cnt isEb (update e p' es) = cnt isEb es) by (rewrite Hb in HC; lia).
  rewrite HE.
  set (P := cnt isEb es * (11 * length ws)) in *. lia.
Qed.

(* the Broadcast: at most [length ws] wake-ups afterwards *)
Lemma mm_ebcast q k T T' ws ads es e b :
  lookup e es = Some (EHoldL b) -> T' <= length ws ->
  mm q k T' ws ads (update e EHeld es) < mm q k T ws ads es.
Proof.
  intros E HT. unfold mm.
  pose proof (wsum_update erank e (EHoldL b) EHeld es E) as HU.
  pose proof (cnt_update isEb e (EHoldL b) EHeld es E) as HC. simpl in HU, HC.
  assert (HE : cnt isEb es = S (cnt isEb (update e EHeld es))) by lia.
  rewrite HE. rewrite Nat.mul_succ_l.
  set (P := cnt isEb (update e EHeld es) * (11 * length ws)) in *. lia.
Qed.

Lemma mm_eexit q k T ws ads es e :
  lookup e es = Some EHeld ->
  mm q k T ws ads (remove_key e es) < mm q k T ws ads es.
Proof.
  intros E. unfold mm.
  pose proof (wsum_remove erank e EHeld es E) as HU.
  pose proof (cnt_remove isEb e EHeld es E) as HC. simpl in HU, HC.
  assert (HE : cnt isEb (remove_key e es) = cnt isEb es) by lia.
  rewrite HE.
  set (P := cnt isEb es * (11 * length ws)) in *. lia.
Qed.

Arguments mm : simpl never.

(* ---------------------------------------------------------------- every internal step decreases it *)

Ltac bsplit :=
  repeat match goal with
  | |- context [qb ?x] => let E := fresh "Eq" in destruct (qb x) eqn:E
  | |- context [kb ?x] => let E := fresh "Ek" in destruct (kb x) eqn:E
  end.

Ltac wfin := try (intros X; exact X); bsplit; unfold qb, kb in *; simpl in *; lia.

(* workerKill is only ever set to -1 (JoinAll), 0 or a positive count by the code; the model's
   LSetKill accepts any integer, and below -1 the workers would spin (as the Go code would). *)
Lemma measure_step s l s' :
  (-1 <= kill s)%Z ->
  internal s l = true -> step s l = Some s' -> measure s' < measure s.
Proof.
  intros Hk Hi Hs. unfold measure.
  destruct l; try discriminate Hi; simpl in Hs; brk; inversion Hs; subst; clear Hs;
    unfold set_w, set_a, set_e; simpl.
  all: repeat match goal with
    | H : Z.eqb _ _ = true |- _ => apply Z.eqb_eq in H
    | H : Z.eqb _ _ = false |- _ => apply Z.eqb_neq in H
    | H : Z.ltb _ _ = true |- _ => apply Z.ltb_lt in H
    | H : Z.ltb _ _ = false |- _ => apply Z.ltb_ge in H
    | H : Nat.eqb _ _ = true |- _ => apply Nat.eqb_eq in H
    | H : Nat.eqb _ _ = false |- _ => apply Nat.eqb_neq in H
    | H : Nat.ltb _ _ = true |- _ => apply Nat.ltb_lt in H
    | H : Nat.ltb _ _ = false |- _ => apply Nat.ltb_ge in H
    end.
  all: try match goal with H : queue _ = [] |- _ => rewrite H in *; simpl length in * end.
  all: try match goal with
    | H : lookup ?w (workers _) = Some ?p |- mm ?q' ?k' ?T' (update ?w ?p' _) _ _ < mm ?q ?k ?T _ _ _ =>
        apply (mm_wstep q k T q' k' T' _ _ _ w p p' H); wfin
    end.
  - (* LELock, owed Broadcast *)
    apply (mm_estep _ _ _ _ _ _ e EPending (EHoldL true) E0); [reflexivity | simpl; lia].
  - (* LELock of a fresh Broadcast is not internal *)
    simpl in Hi. rewrite E0 in Hi. discriminate Hi.
  - (* LEBcast *)
    eapply mm_ebcast; [eassumption | apply cnt_le_length].
  - (* LEUnlock *)
    apply mm_eexit. assumption.
  - (* LALock *)
    apply (mm_astep _ _ _ _ _ _ _ a APushed AHoldL); [assumption | simpl; lia].
  - (* LSignal, a sleeper without wake-up exists *)
    apply (mm_astep _ _ _ _ _ _ _ a AHoldL ASignalled); [assumption | simpl; lia].
  - (* LSignal, nobody to wake *)
    apply (mm_astep _ _ _ _ _ _ _ a AHoldL ASignalled); [assumption | simpl; lia].
  - (* LAUnlock *)
    apply mm_aexit. assumption.
  - (* LKillCheck, workerKill <= 0: it is 0 or -1 *)
    match goal with H : lookup w _ = Some Head |- _ =>
      apply (mm_wstep _ _ _ _ _ _ _ _ _ w Head _ H); try (intros X; exact X) end.
    destruct (Z.eqb k (-1)) eqn:K; [apply Z.eqb_eq in K | apply Z.eqb_neq in K];
      bsplit; unfold qb, kb in *; simpl in *; lia.
  - (* LPop (Some t) *)
    match goal with H : mem t _ = true |- _ => pose proof (length_remove_first _ _ H) as HL end.
    match goal with H : lookup w _ = Some (AfterKill ?b) |- _ =>
      apply (mm_wstep _ _ _ _ _ _ _ _ _ w (AfterKill b) _ H); try (intros X; exact X);
      [apply qb_le; unfold task in *; lia | destruct b] end.
    all: bsplit; unfold qb, kb, task in *; cbn [wrank orb] in *; lia.
  - (* LExit *)
    apply mm_wexit. assumption.
Qed.

Lemma kill_ge_step s l s' :
  internal s l = true -> step s l = Some s' -> (-1 <= kill s)%Z -> (-1 <= kill s')%Z.
Proof.
  intros Hi Hs Hk.
  destruct l; try discriminate Hi; simpl in Hs; brk; inversion Hs; subst; clear Hs;
    unfold set_w, set_a, set_e; simpl; try exact Hk.
  match goal with H : Z.ltb _ _ = true |- _ => apply Z.ltb_lt in H end. lia.
Qed.

Lemma added_step s l s' :
  internal s l = true -> step s l = Some s' -> added s' = added s.
Proof.
  intros Hi Hs.
  destruct l; try discriminate Hi; simpl in Hs; brk; inversion Hs; subst; clear Hs; reflexivity.
Qed.

Lemma internal_not_resize s l : internal s l = true -> resize_label l = false.
Proof. destruct l; simpl; intros H; try reflexivity; discriminate H. Qed.

(* ---------------------------------------------------------------- internal runs *)

(* a run in which every step is internal: nothing calls into the pool *)
Fixpoint irun (s : state) (sched : list label) : option state :=
  match sched with
  | [] => Some s
  | l :: r => if internal s l
              then match step s l with Some s1 => irun s1 r | None => None end
              else None
  end.

Lemma irun_run sched : forall s s', irun s sched = Some s' -> run step s sched = Some s'.
Proof.
  induction sched as [|l r IH]; simpl; intros s s' H; [exact H|].
  destruct (internal s l); [|discriminate]. destruct (step s l) as [s1|]; [|discriminate]. auto.
Qed.

Lemma irun_no_resize sched : forall s s', irun s sched = Some s' -> no_resize sched = true.
Proof.
  induction sched as [|l r IH]; simpl; intros s s' H; [reflexivity|].
  destruct (internal s l) eqn:Hi; [|discriminate]. destruct (step s l) as [s1|]; [|discriminate].
  rewrite (internal_not_resize s l Hi). simpl. eauto.
Qed.

Lemma irun_reach s sched s' : Reach s -> irun s sched = Some s' -> Reach s'.
Proof.
  intros [s0 H0] H. exists (s0 ++ sched). rewrite run_app, H0. apply irun_run. exact H.
Qed.

Lemma irun_bound sched : forall s s',
  (-1 <= kill s)%Z -> irun s sched = Some s' ->
  length sched + measure s' <= measure s /\ (-1 <= kill s')%Z.
Proof.
  induction sched as [|l r IH]; simpl; intros s s' Hk H.
  - inversion H; subst. split; [lia | exact Hk].
  - destruct (internal s l) eqn:Hi; [|discriminate]. destruct (step s l) as [s1|] eqn:Hs; [|discriminate].
    pose proof (measure_step s l s1 Hk Hi Hs) as HM.
    pose proof (kill_ge_step s l s1 Hi Hs Hk) as Hk1.
    destruct (IH s1 s' Hk1 H) as [HB Hk']. split; [lia | exact Hk'].
Qed.

Lemma irun_added sched : forall s s', irun s sched = Some s' -> added s' = added s.
Proof.
  induction sched as [|l r IH]; simpl; intros s s' H.
  - inversion H; reflexivity.
  - destruct (internal s l) eqn:Hi; [|discriminate]. destruct (step s l) as [s1|] eqn:Hs; [|discriminate].
    rewrite (IH s1 s' H). exact (added_step s l s1 Hi Hs).
Qed.

(* ---------------------------------------------------------------- where internal runs end *)

(* no internal step is enabled: nothing happens any more unless somebody calls the pool *)
Definition quiescent (s : state) : Prop := forall l, internal s l = true -> step s l = None.

(* L is free, no AddTask and no Broadcast in flight, every worker inside Wait, no wake-up left *)
Definition asleep (s : state) : Prop :=
  holder s = None /\ adders s = [] /\ envs s = [] /\
  (forall k v, In (k, v) (workers s) -> v = Waiting) /\ tokens s = 0.

Definition asleepb (s : state) : bool :=
  match holder s, adders s, envs s, tokens s with
  | None, [], [], 0 => forallb (fun x => isW (snd x)) (workers s)
  | _, _, _, _ => false
  end.

Lemma asleepb_sound s : asleepb s = true -> asleep s.
Proof.
  unfold asleepb, asleep.
  destruct (holder s); [discriminate|]. destruct (adders s); [|discriminate].
  destruct (envs s); [|discriminate]. destruct (tokens s); [|discriminate].
  intros H. repeat split; try reflexivity.
  intros k v Hin. rewrite forallb_forall in H. specialize (H (k, v) Hin). simpl in H.
  destruct v; try discriminate H. reflexivity.
Qed.

Lemma progress_or_asleep s :
  KInv s -> NInv s -> asleep s \/ exists l, internal s l = true /\ step s l <> None.
Proof.
  intros K N.
  destruct (free s) eqn:F; [|right; apply holder_step_enabled; assumption].
  destruct K as [KW KA KE]. destruct N as [H0 HL H1 H2].
  assert (Hh : hb s = 0) by (apply free_hb; assumption).
  destruct (adders s) as [|[a p] ar] eqn:EA.
  2:{ right. exists (LALock a). split; [reflexivity|]. simpl. rewrite F, EA. rewrite head_lookup.
      destruct p; [discriminate | simpl in HL; lia | simpl in HL; lia]. }
  destruct (envs s) as [|[e p] er] eqn:EE.
  2:{ right. exists (LELock e). split; [simpl; rewrite EE, head_lookup; reflexivity|].
      simpl. rewrite F, EE. rewrite head_lookup.
      destruct p; [discriminate | simpl in HL; lia | simpl in HL; lia]. }
  destruct (all_waiting_dec (workers s)) as [AW|(k & v & Hin & Hv)].
  - destruct (tokens s) eqn:T.
    + left. unfold asleep. unfold free in F. destruct (holder s); [discriminate|]. auto.
    + right. destruct (workers s) as [|[w p] wr] eqn:EW; [simpl in H0; lia|].
      apply (worker_step_enabled s w p); [rewrite EW; apply head_lookup | assumption | lia].
  - right. apply (worker_step_enabled s k v); [apply in_lookup; assumption | assumption | congruence].
Qed.

Lemma asleep_quiescent s : asleep s -> quiescent s.
Proof.
  intros (Hh & Ha & He & Hw & Ht) l Hi.
  assert (W : forall w p, lookup w (workers s) = Some p -> p = Waiting).
  { intros w p E. apply lookup_in in E. eapply Hw; eassumption. }
  destruct l; try discriminate Hi; simpl in *; unfold free; rewrite ?Hh, ?Ha, ?He in *; simpl in *;
    try reflexivity; try discriminate Hi.
  all: destruct (lookup w (workers s)) as [p|] eqn:E; [|reflexivity].
  all: rewrite (W w p E); try reflexivity.
  rewrite Ht. reflexivity.
Qed.

Lemma quiescent_asleep s : KInv s -> NInv s -> quiescent s -> asleep s.
Proof.
  intros K N Q. destruct (progress_or_asleep s K N) as [A|(l & Hi & Hs)]; [exact A|].
  exfalso. apply Hs. apply Q. exact Hi.
Qed.

Lemma all_waiting_noex (ws : list (wid * wpc)) :
  (forall k v, In (k, v) ws -> v = Waiting) -> cnt isEx ws = 0 /\ cnt isLive ws = length ws.
Proof.
  induction ws as [|[k0 v0] r IH]; simpl; [auto|].
  intros H. assert (v0 = Waiting) by (eapply H; left; reflexivity). subst v0.
  destruct IH as (A & B); [intros; eapply H; right; eauto|].
  rewrite A. unfold isLive in *. simpl. split; [reflexivity | lia].
Qed.

(* with the invariant: if a worker is left, nothing is queued or running and no kill request
   is open *)
Lemma asleep_drained s :
  NInv s -> asleep s -> workers s <> [] ->
  queue s = [] /\ running (workers s) = [] /\ kill s = 0%Z.
Proof.
  intros [H0 HL H1 H2] (Hh & Ha & He & Hw & Ht) HW.
  destruct (all_waiting_cnt _ Hw) as (A & B & C & D).
  assert (L : length (workers s) > 0) by (destruct (workers s); [congruence | simpl; lia]).
  rewrite Ha in H1. rewrite He in H1, H2. simpl in H1, H2.
  split; [|split; [exact D|]].
  - destruct (queue s) as [|t q]; [reflexivity|]. exfalso.
    assert (Q : length (t :: q) > 0) by (simpl; lia). specialize (H1 Q). unfold wid in *. lia.
  - destruct (Z.eq_dec (kill s) 0) as [Z|Z]; [exact Z|]. exfalso.
    specialize (H2 Z eq_refl). unfold wid in *. lia.
Qed.

(* ---------------------------------------------------------------- drains *)

(* [balance s] = live workers - workerKill: the number of workers that are going to stay *)
Lemma maximal_run_end s sched s' :
  Reach s -> nojoin s -> (0 <= balance s)%Z ->
  irun s sched = Some s' -> quiescent s' ->
  asleep s' /\ Z.of_nat (length (workers s')) = balance s /\ kill s' = 0%Z /\
  added s' = added s /\ accounted s' /\
  (workers s' <> [] -> queue s' = [] /\ running (workers s') = []).
Proof.
  intros R NJ HB HR HQ.
  pose proof (irun_reach s sched s' R HR) as R'.
  pose proof (reach_ninv s' R') as N'. pose proof (reach_kinv s' R') as K'.
  pose proof (quiescent_asleep s' K' N' HQ) as A.
  destruct (balance_run sched s s' (irun_run _ _ _ HR) (irun_no_resize _ _ _ HR) NJ) as [B [NK _]].
  destruct A as (Hh & Ha & He & Hw & Ht).
  destruct (all_waiting_noex _ Hw) as [X Lv].
  assert (A : asleep s') by (unfold asleep; auto).
  split; [exact A|].
  assert (KL : kill s' = 0%Z /\ Z.of_nat (length (workers s')) = balance s).
  { unfold balance in *. destruct (workers s') as [|x r] eqn:EW.
    - simpl in *. lia.
    - assert (NE : workers s' <> []) by (rewrite EW; discriminate).
      destruct (asleep_drained s' N' A NE) as (_ & _ & Z). unfold wid in *.
      split; [exact Z | lia]. }
  destruct KL as [KZ KL].
  split; [exact KL|]. split; [exact KZ|]. split; [exact (irun_added _ _ _ HR)|].
  split; [exact (reach_accounted s' R')|].
  intros NE. destruct (asleep_drained s' N' A NE) as (Q & Rn & _). auto.
Qed.

Lemma drains s sched s' :
  Reach s -> nojoin s -> (0 < balance s)%Z ->
  irun s sched = Some s' -> quiescent s' ->
  queue s' = [] /\ running (workers s') = [] /\ Permutation (done s') (added s) /\
  asleep s' /\ Z.of_nat (length (workers s')) = balance s.
Proof.
  intros R NJ HB HR HQ.
  destruct (maximal_run_end s sched s' R NJ ltac:(lia) HR HQ) as (A & L & KZ & AD & AC & D).
  assert (NE : workers s' <> []).
  { intros E. rewrite E in L. simpl in L. lia. }
  destruct (D NE) as [Q Rn]. unfold accounted in AC. rewrite Q, Rn, AD in AC. simpl in AC. auto.
Qed.

(* the special case of the property text: no resize in progress *)
Lemma drains_kill0 s sched s' :
  Reach s -> kill s = 0%Z -> cnt isAKT (workers s) = 0 -> cnt isLive (workers s) > 0 ->
  irun s sched = Some s' -> quiescent s' ->
  queue s' = [] /\ running (workers s') = [] /\ Permutation (done s') (added s) /\
  asleep s' /\ length (workers s') = cnt isLive (workers s).
Proof.
  intros R KZ AK LV HR HQ.
  assert (NJ : nojoin s) by (unfold nojoin; split; [lia | exact AK]).
  assert (B : balance s = Z.of_nat (cnt isLive (workers s))) by (unfold balance; lia).
  destruct (drains s sched s' R NJ ltac:(lia) HR HQ) as (Q & Rn & P & A & L).
  split; [exact Q|]. split; [exact Rn|]. split; [exact P|]. split; [exact A|].
  unfold wid in *. lia.
Qed.

Lemma runs_bounded s sched s' :
  (-1 <= kill s)%Z -> irun s sched = Some s' -> length sched <= measure s.
Proof. intros Hk H. destruct (irun_bound sched s s' Hk H) as [B _]. lia. Qed.

Lemma maximal_run_exists_aux n : forall s,
  measure s <= n -> KInv s -> NInv s -> (-1 <= kill s)%Z ->
  exists sched s', irun s sched = Some s' /\ quiescent s'.
Proof.
  induction n as [|n IH]; intros s HM K N Hk.
  - destruct (progress_or_asleep s K N) as [A|(l & Hi & Hs)].
    + exists [], s. split; [reflexivity | exact (asleep_quiescent s A)].
    + exfalso. destruct (step s l) as [s1|] eqn:E; [|congruence].
      pose proof (measure_step s l s1 Hk Hi E). lia.
  - destruct (progress_or_asleep s K N) as [A|(l & Hi & Hs)].
    + exists [], s. split; [reflexivity | exact (asleep_quiescent s A)].
    + destruct (step s l) as [s1|] eqn:E; [|congruence].
      pose proof (measure_step s l s1 Hk Hi E) as HM1.
      destruct (IH s1 ltac:(lia) (kinv_step s l s1 K E) (ninv_step s l s1 N E)
                  (kill_ge_step s l s1 Hi E Hk)) as (sched & s' & HR & HQ).
      exists (l :: sched), s'. split; [|exact HQ]. simpl. rewrite Hi, E. exact HR.
Qed.

Lemma maximal_run_exists s :
  Reach s -> (-1 <= kill s)%Z -> exists sched s', irun s sched = Some s' /\ quiescent s'.
Proof.
  intros R Hk. apply (maximal_run_exists_aux (measure s) s (le_n _) (reach_kinv s R) (reach_ninv s R) Hk).
Qed.

(* ---------------------------------------------------------------- resizes *)

(* SetWorkerCount(c) that shrinks a pool of n workers none of which is on its way out (no
   earlier shrink / JoinAll still has a worker leaving: the resizes do not overlap) *)
Lemma shrink_converges s0 e n c s sched s' :
  Reach s0 ->
  length (workers s0) = n -> cnt isEx (workers s0) = 0 -> cnt isAKT (workers s0) = 0 -> c <= n ->
  step s0 (LSetKill e (Z.of_nat n - Z.of_nat c)%Z) = Some s ->
  irun s sched = Some s' ->
  length sched <= measure s /\
  (quiescent s' -> length (workers s') = c /\ kill s' = 0%Z /\ asleep s').
Proof.
  intros R Hn Hx Ha Hc Hs HR.
  pose proof (reachable_step _ _ step init s0 _ s R Hs) as R1.
  simpl in Hs. destruct (lookup e (envs s0)); [discriminate|]. inversion Hs; subst s; clear Hs.
  split.
  - apply (runs_bounded _ sched s'); [simpl; lia | exact HR].
  - intros HQ.
    pose proof (cnt_live_ex (workers s0)) as LE.
    destruct (maximal_run_end _ sched s' R1) as (A & L & KZ & _); try assumption.
    + split; simpl; [lia | exact Ha].
    + unfold balance. simpl. unfold wid in *. lia.
    + unfold balance in L. simpl in L. unfold wid in *. split; [lia | auto].
Qed.

(* after a grow (workerKill := 0, workers spawned up to c) in a pool without a leaving worker *)
Lemma grown_converges s c sched s' :
  Reach s -> kill s = 0%Z -> cnt isEx (workers s) = 0 -> cnt isAKT (workers s) = 0 ->
  length (workers s) = c ->
  irun s sched = Some s' ->
  length sched <= measure s /\
  (quiescent s' -> length (workers s') = c /\ kill s' = 0%Z /\ asleep s').
Proof.
  intros R KZ Hx Ha Hc HR. split.
  - apply (runs_bounded _ sched s'); [lia | exact HR].
  - intros HQ.
    pose proof (cnt_live_ex (workers s)) as LE.
    destruct (maximal_run_end _ sched s' R) as (A & L & KZ' & _); try assumption.
    + split; [lia | exact Ha].
    + unfold balance. unfold wid in *. lia.
    + unfold balance in L. unfold wid in *. split; [lia | auto].
Qed.

(* ---------------------------------------------------------------- JoinAll *)

(* workerKill = -1: a worker leaves only after an empty Pop, and nothing is pushed in an
   internal run - so as long as a task is queued some worker has not left *)
Lemma join_step s l s' :
  internal s l = true -> step s l = Some s' ->
  kill s = (-1)%Z -> (queue s = [] \/ cnt isLive (workers s) > 0) ->
  kill s' = (-1)%Z /\ (queue s' = [] \/ cnt isLive (workers s') > 0).
Proof.
  intros Hi Hs Hk HJ.
  destruct l; try discriminate Hi; simpl in Hs; brk; inversion Hs; subst; clear Hs;
    unfold set_w, set_a, set_e; simpl.
  all: repeat match goal with
    | H : Z.eqb _ _ = true |- _ => apply Z.eqb_eq in H
    | H : Z.ltb _ _ = true |- _ => apply Z.ltb_lt in H
    end.
  all: try (split; [assumption|]).
  all: try match goal with
    | H : lookup ?w (workers _) = Some _ |- context [update ?w ?p' (workers _)] =>
        pose proof (cnt_update isLive _ _ p' _ H)
    | H : lookup ?w (workers _) = Some _ |- context [remove_key ?w (workers _)] =>
        pose proof (cnt_remove isLive _ _ _ H)
    end.
  all: try exact HJ.
  all: try (exfalso; lia).
  all: try (left; reflexivity).
  all: try (left; assumption).
  all: try (right; unfold isLive in *; simpl in *; lia).
  all: try (destruct HJ as [Q|L]; [left; exact Q | right; unfold isLive in *; simpl in *; lia]).
  destruct HJ as [Q|L]; [rewrite Q in E2; discriminate E2|].
  right. unfold isLive in *. simpl in *. lia.
Qed.

Lemma join_run sched : forall s s',
  irun s sched = Some s' ->
  kill s = (-1)%Z -> (queue s = [] \/ cnt isLive (workers s) > 0) ->
  kill s' = (-1)%Z /\ (queue s' = [] \/ cnt isLive (workers s') > 0).
Proof.
  induction sched as [|l r IH]; simpl; intros s s' H Hk HJ.
  - inversion H; subst. auto.
  - destruct (internal s l) eqn:Hi; [|discriminate]. destruct (step s l) as [s1|] eqn:Hs; [|discriminate].
    destruct (join_step s l s1 Hi Hs Hk HJ) as [Hk1 HJ1]. exact (IH s1 s' H Hk1 HJ1).
Qed.

(* JoinAll (workerKill = -1, at least one worker that has not left yet): every maximal
   internal run ends with zero workers, nothing queued, every accepted task executed *)
Lemma join_drains s sched s' :
  Reach s -> kill s = (-1)%Z -> cnt isLive (workers s) > 0 ->
  irun s sched = Some s' ->
  length sched <= measure s /\
  (quiescent s' -> workers s' = [] /\ queue s' = [] /\ Permutation (done s') (added s)).
Proof.
  intros R Hk HL HR. split.
  - apply (runs_bounded _ sched s'); [lia | exact HR].
  - intros HQ.
    pose proof (irun_reach s sched s' R HR) as R'.
    pose proof (reach_ninv s' R') as N'. pose proof (reach_kinv s' R') as K'.
    pose proof (quiescent_asleep s' K' N' HQ) as A.
    destruct (join_run sched s s' HR Hk (or_intror HL)) as [Hk' HJ'].
    assert (W : workers s' = []).
    { destruct (workers s') as [|x r] eqn:EW; [reflexivity|]. exfalso.
      assert (NE : workers s' <> []) by (rewrite EW; discriminate).
      destruct (asleep_drained s' N' A NE) as (_ & _ & Z). lia. }
    split; [exact W|].
    assert (Q : queue s' = []).
    { destruct HJ' as [Q|L]; [exact Q|]. rewrite W in L. simpl in L. lia. }
    split; [exact Q|].
    pose proof (reach_accounted s' R') as AC. unfold accounted in AC.
    rewrite Q, W in AC. simpl in AC. rewrite (irun_added _ _ _ HR) in AC. exact AC.
Qed.
