(* Proofs/DebuggerProofs.v — lemmas for property C15 (Model/Debugger.v against Spec/DebugSpec.v). *)
From Coq Require Import List Arith Bool Lia.
From Ecal Require Import Common.Sched Model.Debugger Spec.DebugSpec.
Import ListNotations.

(* ==================================================================================== *)
(* Part A: the suspend / continue protocol *)

Lemma upd_same f t v : upd f t v t = v.
Proof. unfold upd. now rewrite Nat.eqb_refl. Qed.

Lemma upd_other f t v x : x <> t -> upd f t v x = f x.
Proof. unfold upd. intros H. destruct (Nat.eqb_spec x t); congruence. Qed.

Definition susp_pc (p : pc) : bool := match p with PReg | PHold | PWait => true | _ => false end.

(* per thread; any number of threads *)
Definition inv_thr (th : thr) : Prop :=
  (t_pc th = PWait -> t_running th = false) /\
  (t_running th = false -> susp_pc (t_pc th) = true) /\
  (t_reg th = false -> t_pc th = PRun \/ t_pc th = PDead).

Definition Inv (s : dstate) : Prop := forall t, inv_thr (threads s t).

Lemma inv_init : Inv dinit.
Proof. intros t; unfold inv_thr; simpl. repeat split; auto; discriminate. Qed.

Lemma inv_upd s t th' infl b : Inv s -> inv_thr th' -> Inv (mkD (upd (threads s) t th') infl b).
Proof. intros H H' x. simpl. unfold upd. destruct (Nat.eqb x t); auto. Qed.

Ltac fin HI :=
  intros [= <-]; try exact HI; try (apply inv_upd; [exact HI|]);
  unfold inv_thr in *; simpl in *;
  repeat match goal with E : t_pc ?x = _, H : context [t_pc ?x] |- _ =>
           lazymatch H with E => fail | _ => rewrite E in H end end;
  simpl in *; intuition (try discriminate; try congruence).

Lemma inv_step s l s' : Inv s -> proto_new s l = Some s' -> Inv s'.
Proof.
  intros HI. unfold proto_new, pstep.
  destruct l as [t line|t|t|t|t|t k|i|t|line b]; simpl.
  - pose proof (HI t) as Ht. destruct (t_pc (threads s t)) eqn:Epc; try discriminate.
    destruct (t_reg (threads s t)) eqn:Er.
    + fin HI.
    + destruct (is_nil (inflight s)); [fin HI | discriminate].
  - pose proof (HI t) as Ht. unfold thread_region.
    destruct (t_pc (threads s t)) eqn:Epc; try discriminate; simpl.
    + fin HI.
    + destruct (t_running (threads s t)) eqn:Er; simpl; fin HI.
    + fin HI.
  - pose proof (HI t) as Ht. destruct (t_pc (threads s t)) eqn:Epc; try discriminate.
    destruct (t_reg (threads s t) && is_nil (inflight s) &&
              (icmd_eqb (t_cmd (threads s t)) CResume || icmd_eqb (t_cmd (threads s t)) CKill)); [|discriminate].
    destruct (icmd_eqb (t_cmd (threads s t)) CKill); fin HI.
  - pose proof (HI t) as Ht. destruct (t_pc (threads s t)) eqn:Epc; try discriminate. fin HI.
  - pose proof (HI t) as Ht. destruct (t_pc (threads s t)) eqn:Epc; try discriminate.
    destruct (t_depth (threads s t)); try discriminate. fin HI.
  - destruct (t_reg (threads s t) && negb (t_running (threads s t))).
    + intros [= <-]. intros x. apply HI.
    + fin HI.
  - destruct (nth_error (inflight s) i) as [[t k]|]; [|discriminate].
    pose proof (HI t) as Ht.
    destruct (pc_eqb (t_pc (threads s t)) PHold); [discriminate|].
    unfold wake, cont_write. destruct (cont_cmd k _ _) as [c so]. simpl.
    destruct (t_pc (threads s t)) eqn:Epc; fin HI.
  - pose proof (HI t) as Ht.
    destruct (pc_eqb (t_pc (threads s t)) PHold); [discriminate|].
    destruct (t_reg (threads s t) && negb (t_running (threads s t))).
    + unfold wake. simpl. destruct (t_pc (threads s t)) eqn:Epc; fin HI.
    + fin HI.
  - intros [= <-]. intros x. apply HI.
Qed.

Lemma inv_reach s : reachable proto_new dinit s -> Inv s.
Proof. apply inv_reachable; [apply inv_init | intros; eapply inv_step; eauto]. Qed.

(* no lost wake-up *)
Lemma no_lost_wakeup sched s t : run proto_new dinit sched = Some s -> lost s t = false.
Proof.
  intros H. assert (HI : Inv s) by (apply inv_reach; exists sched; exact H).
  destruct (HI t) as [H1 _]. unfold lost.
  destruct (t_pc (threads s t)) eqn:E; simpl; auto; try (now rewrite H1).
Qed.

Definition at_large (s : dstate) (t : nat) : Prop :=
  t_pc (threads s t) = PRun \/ t_pc (threads s t) = PDead.

Lemma step_thread s t th' :
  thread_region false (threads s t) = Some th' ->
  proto_new s (LThread t) = Some (mkD (upd (threads s) t th') (inflight s) (bps s)).
Proof. intros H. unfold proto_new, pstep. now rewrite H. Qed.

(* a thread whose running flag is set gets out by its own steps *)
Lemma running_released s t :
  Inv s -> t_running (threads s t) = true -> Released dstate label proto_new LThread at_large s t.
Proof.
  intros HI Hr. destruct (HI t) as [H1 [H2 H3]]. unfold Released, at_large.
  destruct (t_pc (threads s t)) eqn:Epc.
  - exists 0, s. simpl. auto.
  - (* PReg -> PHold -> PRun *)
    eexists 2, _. split; [lia|]. cbn [repeat run].
    rewrite (step_thread s t _ ltac:(unfold thread_region; rewrite Epc; reflexivity)).
    erewrite step_thread; [|cbn [threads]; rewrite upd_same; unfold thread_region; cbn; rewrite Hr; reflexivity].
    split; [reflexivity|]. cbn [threads]. rewrite upd_same. cbn. auto.
  - eexists 1, _. split; [lia|]. cbn [repeat run].
    erewrite step_thread; [|unfold thread_region; rewrite Epc; cbn; rewrite Hr; reflexivity].
    split; [reflexivity|]. cbn [threads]. rewrite upd_same. cbn. auto.
  - rewrite H1 in Hr by reflexivity. discriminate.
  - (* PWoken -> PHold -> PRun *)
    eexists 2, _. split; [lia|]. cbn [repeat run].
    rewrite (step_thread s t _ ltac:(unfold thread_region; rewrite Epc; reflexivity)).
    erewrite step_thread; [|cbn [threads]; rewrite upd_same; unfold thread_region; cbn; rewrite Hr; reflexivity].
    split; [reflexivity|]. cbn [threads]. rewrite upd_same. cbn. auto.
  - exists 0, s. simpl. auto.
Qed.

(* the running flag of t stays set until t itself suspends anew *)
Definition suspends (t : nat) (l : label) : bool :=
  match l with LSuspend t' _ => Nat.eqb t' t | _ => false end.

Lemma running_stable s l s' t :
  proto_new s l = Some s' -> suspends t l = false ->
  t_running (threads s t) = true -> t_running (threads s' t) = true.
Proof.
  unfold proto_new, pstep.
  assert (U : forall f u v, (u = t -> t_running v = true) -> t_running (f t) = true ->
                            t_running (upd f u v t) = true).
  { intros f u v Hv Hf. unfold upd. destruct (Nat.eqb_spec t u); auto. }
  destruct l as [u line|u|u|u|u|u k|i|u|line b]; simpl; intros Hs Hn Hr.
  - destruct (Nat.eqb_spec u t) as [->|Hne]; [discriminate|].
    destruct (t_pc (threads s u)); try discriminate.
    destruct (t_reg (threads s u)); [|destruct (is_nil (inflight s)); [|discriminate]];
      injection Hs as <-; simpl; rewrite upd_other; auto.
  - destruct (thread_region false (threads s u)) as [th'|] eqn:E; [|discriminate].
    injection Hs as <-. simpl. apply U; auto. intros ->.
    unfold thread_region in E. destruct (t_pc (threads s t)); try discriminate; simpl in E.
    + injection E as <-. auto.
    + destruct (t_running (threads s t)); injection E as <-; auto.
    + injection E as <-. auto.
  - destruct (t_pc (threads s u)); try discriminate.
    destruct (_ && _ && _); [|discriminate]. injection Hs as <-. simpl. apply U; auto.
  - destruct (t_pc (threads s u)); try discriminate. injection Hs as <-. simpl. apply U; auto.
    intros ->. exact Hr.
  - destruct (t_pc (threads s u)); try discriminate. destruct (t_depth (threads s u)); try discriminate.
    injection Hs as <-. simpl. apply U; auto. intros ->. exact Hr.
  - destruct (_ && _); injection Hs as <-; simpl; auto.
  - destruct (nth_error (inflight s) i) as [[v k]|]; [|discriminate].
    destruct (pc_eqb _ _); [discriminate|]. injection Hs as <-. simpl. apply U; auto.
  - destruct (pc_eqb _ _); [discriminate|]. destruct (_ && _); injection Hs as <-; simpl; auto;
    try (apply U; auto).
  - injection Hs as <-. simpl. auto.
Qed.

Lemma running_stable_run sched : forall s s' t,
  run proto_new s sched = Some s' -> forallb (fun l => negb (suspends t l)) sched = true ->
  t_running (threads s t) = true -> t_running (threads s' t) = true.
Proof.
  induction sched as [|l r IH]; intros s s' t; simpl.
  - intros [= <-] _ H; exact H.
  - destruct (proto_new s l) as [s1|] eqn:E; [|discriminate].
    intros Hr Hf Hrun. apply andb_true_iff in Hf as [Hl Hf].
    apply (IH s1 s' t Hr Hf). eapply running_stable; eauto. now apply negb_true_iff.
Qed.

Lemma reach_run s sched s' :
  reachable proto_new dinit s -> run proto_new s sched = Some s' -> reachable proto_new dinit s'.
Proof. intros [s0 H0] H. exists (s0 ++ sched). now rewrite run_app, H0. Qed.

(* after the second region of a Continue for t: t is released, in every later state up to
   t's next suspension — whatever else happens, no further command is needed *)
Lemma continue_releases s i t k s1 sched s2 :
  reachable proto_new dinit s ->
  nth_error (inflight s) i = Some (t, k) ->
  proto_new s (LContFinish i) = Some s1 ->
  run proto_new s1 sched = Some s2 ->
  forallb (fun l => negb (suspends t l)) sched = true ->
  Released dstate label proto_new LThread at_large s2 t.
Proof.
  intros Hre Hn Hs Hrun Hf.
  assert (R1 : reachable proto_new dinit s1) by (eapply reachable_step; eauto).
  assert (R2 : reachable proto_new dinit s2) by (eapply reach_run; eauto).
  apply running_released; [apply inv_reach; exact R2|].
  eapply running_stable_run; eauto.
  unfold proto_new, pstep in Hs. rewrite Hn in Hs.
  destruct (pc_eqb _ _); [discriminate|]. injection Hs as <-. simpl. rewrite upd_same.
  reflexivity.
Qed.

Lemma stop_releases s t s1 sched s2 :
  reachable proto_new dinit s ->
  proto_new s (LStopOne t) = Some s1 ->
  run proto_new s1 sched = Some s2 ->
  forallb (fun l => negb (suspends t l)) sched = true ->
  Released dstate label proto_new LThread at_large s2 t.
Proof.
  intros Hre Hs Hrun Hf.
  assert (R1 : reachable proto_new dinit s1) by (eapply reachable_step; eauto).
  assert (R2 : reachable proto_new dinit s2) by (eapply reach_run; eauto).
  assert (I1 : Inv s1) by (apply inv_reach; exact R1).
  apply running_released; [apply inv_reach; exact R2|].
  eapply running_stable_run; eauto.
  (* after the region: either the flag was set by it, or the thread was not reported suspended *)
  unfold proto_new, pstep in Hs. destruct (pc_eqb _ _); [discriminate|].
  destruct (t_reg (threads s t) && negb (t_running (threads s t))) eqn:E.
  - injection Hs as <-. simpl. rewrite upd_same. reflexivity.
  - injection Hs as <-. destruct (t_running (threads s t)) eqn:Er; auto.
    rewrite andb_false_r in E || idtac. destruct (t_reg (threads s t)) eqn:Eg; simpl in E; try discriminate.
    assert (Is : Inv s) by (apply inv_reach; exact Hre).
    destruct (Is t) as [_ [H2 H3]]. specialize (H2 Er). destruct (H3 Eg) as [Hp|Hp]; rewrite Hp in H2; discriminate.
Qed.

(* explicit: a thread reported as suspended, one Continue, nothing else *)
Definition release_sched (s : dstate) (t : nat) (k : ctype) : list label :=
  let j := length (inflight s) in
  match t_pc (threads s t) with
  | PHold => [LContBegin t k; LThread t; LContFinish j; LThread t; LThread t]
  | _ => [LContBegin t k; LContFinish j; LThread t; LThread t]
  end.

Lemma nth_error_last {A} (l : list A) x : nth_error (l ++ [x]) (length l) = Some x.
Proof. induction l; simpl; auto. Qed.

Lemma step_cbegin s t k :
  t_reg (threads s t) = true -> t_running (threads s t) = false ->
  proto_new s (LContBegin t k) = Some (mkD (threads s) (inflight s ++ [(t, k)]) (bps s)).
Proof. intros H1 H2. unfold proto_new, pstep. rewrite H1, H2. reflexivity. Qed.

Lemma step_cfinish s i t k :
  nth_error (inflight s) i = Some (t, k) -> pc_eqb (t_pc (threads s t)) PHold = false ->
  proto_new s (LContFinish i) =
  Some (mkD (upd (threads s) t (wake (cont_write k (threads s t)))) (remove_nth i (inflight s)) (bps s)).
Proof. intros H1 H2. unfold proto_new, pstep. rewrite H1, H2. reflexivity. Qed.

Lemma suspended_released_by_continue s t k :
  reachable proto_new dinit s -> reported_suspended s t = true ->
  exists s', run proto_new s (release_sched s t k) = Some s' /\
             t_pc (threads s' t) = PRun /\
             t_resumed (threads s' t) = S (t_resumed (threads s t)).
Proof.
  intros Hre Hs. assert (HI : Inv s) by (apply inv_reach; exact Hre).
  unfold reported_suspended in Hs. apply andb_true_iff in Hs as [Hg Hr].
  apply negb_true_iff in Hr. destruct (HI t) as [_ [H2 _]]. specialize (H2 Hr).
  unfold release_sched.
  destruct (t_pc (threads s t)) eqn:Epc; try discriminate; clear H2.
  - (* PReg *)
    eexists. split.
    + cbn [run]. rewrite (step_cbegin s t k Hg Hr).
      erewrite step_cfinish; [| cbn [inflight]; apply nth_error_last | cbn [threads]; rewrite Epc; reflexivity].
      cbn [threads inflight bps].
      erewrite step_thread; [| cbn [threads]; rewrite upd_same; unfold thread_region, wake, cont_write; cbn; rewrite Epc; cbn; reflexivity].
      erewrite step_thread; [| cbn [threads]; rewrite upd_same; unfold thread_region; cbn; reflexivity].
      reflexivity.
    + cbn [threads]. rewrite !upd_same. cbn. auto.
  - (* PHold *)
    eexists. split.
    + cbn [run]. rewrite (step_cbegin s t k Hg Hr).
      erewrite step_thread; [| cbn [threads]; unfold thread_region; rewrite Epc, Hr; cbn; reflexivity].
      erewrite step_cfinish; [| cbn [inflight]; apply nth_error_last | cbn [threads]; rewrite upd_same; reflexivity].
      cbn [threads inflight bps].
      erewrite step_thread; [| cbn [threads]; rewrite !upd_same; unfold thread_region, wake, cont_write; cbn; reflexivity].
      erewrite step_thread; [| cbn [threads]; rewrite upd_same; unfold thread_region; cbn; reflexivity].
      reflexivity.
    + cbn [threads]. rewrite !upd_same. cbn. auto.
  - (* PWait *)
    eexists. split.
    + cbn [run]. rewrite (step_cbegin s t k Hg Hr).
      erewrite step_cfinish; [| cbn [inflight]; apply nth_error_last | cbn [threads]; rewrite Epc; reflexivity].
      cbn [threads inflight bps].
      erewrite step_thread; [| cbn [threads]; rewrite upd_same; unfold thread_region, wake, cont_write; cbn; rewrite Epc; cbn; reflexivity].
      erewrite step_thread; [| cbn [threads]; rewrite upd_same; unfold thread_region; cbn; reflexivity].
      reflexivity.
    + cbn [threads]. rewrite !upd_same. cbn. auto.
Qed.

(* --- the protocol before the repair: a reachable state from which the thread never gets out *)
Definition old_witness : list label :=
  [LSuspend 0 3; LContBegin 0 KResume; LContFinish 0; LThread 0; LThread 0].

Definition lost_for_good (s : dstate) (t : nat) : Prop :=
  lost s t = true /\ forall i k, nth_error (inflight s) i <> Some (t, k).

Lemma nth_remove_nth {A} (l : list A) : forall i j x,
  nth_error (remove_nth i l) j = Some x -> exists j', nth_error l j' = Some x.
Proof.
  induction l as [|a r IH]; intros i j x; destruct i; simpl.
  - destruct j; discriminate.
  - destruct j; discriminate.
  - intros H. exists (S j). exact H.
  - destruct j; simpl.
    + intros H. exists 0. exact H.
    + intros H. destruct (IH _ _ _ H) as [j' Hj]. exists (S j'). exact Hj.
Qed.

Lemma old_lost_step s l s' t : lost_for_good s t -> proto_old s l = Some s' -> lost_for_good s' t.
Proof.
  intros [Hl Hn]. unfold lost in Hl. apply andb_true_iff in Hl as [Hp Hr].
  assert (Epc : t_pc (threads s t) = PWait) by (destruct (t_pc (threads s t)); simpl in Hp; congruence).
  clear Hp. unfold proto_old, pstep.
  assert (K : forall u v infl b, u <> t -> (forall i k, nth_error infl i <> Some (t, k)) ->
                lost_for_good (mkD (upd (threads s) u v) infl b) t).
  { intros u v infl b Hne Hi. split; [|exact Hi]. unfold lost. simpl. rewrite upd_other by auto.
    rewrite Epc, Hr. reflexivity. }
  assert (Same : forall infl b, (forall i k, nth_error infl i <> Some (t, k)) ->
                lost_for_good (mkD (threads s) infl b) t).
  { intros infl b Hi. split; [|exact Hi]. unfold lost. simpl. rewrite Epc, Hr. reflexivity. }
  destruct l as [u line|u|u|u|u|u k|i|u|line b]; simpl.
  - destruct (Nat.eq_dec u t) as [->|Hne]; [rewrite Epc; discriminate|].
    destruct (t_pc (threads s u)); try discriminate.
    destruct (t_reg (threads s u)); [|destruct (is_nil (inflight s)); [|discriminate]];
      intros [= <-]; apply K; auto.
  - destruct (Nat.eq_dec u t) as [->|Hne]; [unfold thread_region; rewrite Epc; discriminate|].
    destruct (thread_region true (threads s u)); [|discriminate]. intros [= <-]. apply K; auto.
  - destruct (Nat.eq_dec u t) as [->|Hne]; [rewrite Epc; discriminate|].
    destruct (t_pc (threads s u)); try discriminate. destruct (_ && _ && _); [|discriminate].
    intros [= <-]. apply K; auto.
  - destruct (Nat.eq_dec u t) as [->|Hne]; [rewrite Epc; discriminate|].
    destruct (t_pc (threads s u)); try discriminate. intros [= <-]. apply K; auto.
  - destruct (Nat.eq_dec u t) as [->|Hne]; [rewrite Epc; discriminate|].
    destruct (t_pc (threads s u)); try discriminate. destruct (t_depth (threads s u)); try discriminate.
    intros [= <-]. apply K; auto.
  - destruct (Nat.eq_dec u t) as [->|Hne].
    + rewrite Hr. rewrite andb_false_r. intros [= <-]. split; [unfold lost; rewrite Epc, Hr; reflexivity | exact Hn].
    + destruct (_ && _); intros [= <-].
      * apply K; auto. intros i k' H.
        destruct (Nat.lt_ge_cases i (length (inflight s))) as [Hlt|Hge].
        -- rewrite nth_error_app1 in H by exact Hlt. exact (Hn _ _ H).
        -- rewrite nth_error_app2 in H by exact Hge.
           destruct (i - length (inflight s)) as [|m]; simpl in H; [congruence | destruct m; discriminate].
      * split; [unfold lost; rewrite Epc, Hr; reflexivity | exact Hn].
  - destruct (nth_error (inflight s) i) as [[u k]|] eqn:En; [|discriminate].
    destruct (Nat.eq_dec u t) as [->|Hne]; [exfalso; exact (Hn _ _ En)|].
    destruct (pc_eqb _ _); [discriminate|]. intros [= <-]. apply K; auto.
    intros j k' H. destruct (nth_remove_nth _ _ _ _ H) as [j' Hj]. exact (Hn _ _ Hj).
  - destruct (Nat.eq_dec u t) as [->|Hne].
    + rewrite Epc. simpl. rewrite Hr. rewrite andb_false_r. intros [= <-].
      split; [unfold lost; rewrite Epc, Hr; reflexivity | exact Hn].
    + destruct (pc_eqb _ _); [discriminate|]. destruct (_ && _); intros [= <-].
      * apply K; auto.
      * split; [unfold lost; rewrite Epc, Hr; reflexivity | exact Hn].
  - intros [= <-]. apply Same; auto.
Qed.

Lemma old_lost_forever sched : forall s s' t,
  lost_for_good s t -> run proto_old s sched = Some s' -> lost_for_good s' t.
Proof.
  induction sched as [|l r IH]; intros s s' t H; simpl.
  - intros [= <-]; exact H.
  - destruct (proto_old s l) as [s1|] eqn:E; [|discriminate]. intros Hr.
    eapply IH; [eapply old_lost_step; eauto | exact Hr].
Qed.

Lemma old_protocol_refuted :
  exists s, run proto_old dinit old_witness = Some s /\
            reported_suspended s 0 = false /\ lost s 0 = true /\
            forall sched s', run proto_old s sched = Some s' -> lost s' 0 = true.
Proof.
  destruct (run proto_old dinit old_witness) as [s|] eqn:E; [|vm_compute in E; discriminate].
  exists s. split; [reflexivity|].
  assert (L : lost_for_good s 0).
  { vm_compute in E. injection E as <-. split; [reflexivity|].
    intros i k. destruct i; discriminate. }
  split; [|split].
  - vm_compute in E. injection E as <-. reflexivity.
  - apply L.
  - intros sched s' H. exact (proj1 (old_lost_forever sched s s' 0 L H)).
Qed.

(* the same schedule on the repaired protocol ends with the thread running again *)
Lemma new_protocol_on_witness :
  exists s, run proto_new dinit (old_witness ++ []) = Some s /\ t_pc (threads s 0) = PRun /\ t_resumed (threads s 0) = 1.
Proof. eexists. split; [vm_compute; reflexivity|]. split; reflexivity. Qed.

(* ==================================================================================== *)
(* Part B: the suspend decision *)

(* the model's breakpoint table agrees with the Spec's reading of an edit history *)
Lemma bp_active_filter m l x :
  bp_active (filter (fun e => negb (Nat.eqb (fst e) l)) m) x = if Nat.eqb l x then false else bp_active m x.
Proof.
  induction m as [|[k v] r IH]; simpl.
  - destruct (Nat.eqb l x); reflexivity.
  - destruct (Nat.eqb_spec k l) as [->|Hne]; simpl.
    + rewrite IH. destruct (Nat.eqb l x); reflexivity.
    + rewrite IH. destruct (Nat.eqb_spec k x) as [->|Hkx].
      * destruct (Nat.eqb_spec l x); [congruence | reflexivity].
      * reflexivity.
Qed.

Lemma bp_active_set m l b x :
  bp_active (bp_set l b m) x =
  if Nat.eqb l x then match b with Some true => true | _ => false end else bp_active m x.
Proof.
  unfold bp_set. destruct b as [v|]; simpl; rewrite bp_active_filter.
  - destruct (Nat.eqb l x); [destruct v|]; reflexivity.
  - destruct (Nat.eqb l x); reflexivity.
Qed.

Lemma bp_table_gen es : forall m x,
  bp_active (apply_edits m es) x =
  if existsb (fun e => Nat.eqb (fst e) x) es then active_after es x else bp_active m x.
Proof.
  induction es as [|[l b] r IH]; intros m x; simpl; [reflexivity|].
  rewrite IH, bp_active_set.
  destruct (existsb (fun e => Nat.eqb (fst e) x) r); [rewrite orb_true_r; reflexivity|].
  rewrite orb_false_r. destruct (Nat.eqb l x); reflexivity.
Qed.

Lemma bp_table_spec es x : bp_active (apply_edits [] es) x = active_after es x.
Proof.
  rewrite bp_table_gen. destruct (existsb (fun e => Nat.eqb (fst e) x) es) eqn:E; [reflexivity|].
  simpl. destruct es as [|[l b] r]; [reflexivity|]. simpl in *.
  apply orb_false_iff in E as [E1 E2]. now rewrite E2, E1.
Qed.

(* consistency of the ghost position with the debugger's record of the thread *)
Definition wf (d : dthr) : Prop :=
  match d_is d with
  | Some i => i_cmd i = CStop \/ i_cmd i = CStepOut \/ i_line i = d_pos d
  | None => True
  end.

Lemma wf0 : wf dthr0.
Proof. exact I. Qed.

Lemma wf_handle e d ev k : wf d -> wf (snd (fst (handle e d ev k))).
Proof.
  unfold wf, handle, visit_state, apply_cont. intros H.
  destruct ev as [line|line|line err].
  - destruct (d_is d) as [i|]; simpl in *.
    + destruct (i_cmd i) eqn:Ec; simpl;
        repeat match goal with |- context [if ?c then _ else _] => destruct c eqn:? end;
        simpl; try rewrite Ec; auto; try (destruct k; simpl; auto; destruct (d_depth d); simpl; auto);
        try (apply Nat.eqb_eq in Heqb; auto);
        try (apply negb_false_iff in Heqb; apply Nat.eqb_eq in Heqb; auto);
        try (match goal with Hq : negb (Nat.eqb _ _) || false = false |- _ =>
               rewrite orb_false_r in Hq; apply negb_false_iff in Hq; apply Nat.eqb_eq in Hq; auto end).
    + repeat match goal with |- context [if ?c then _ else _] => destruct c eqn:? end; simpl; auto;
        destruct k; simpl; auto; destruct (d_depth d); simpl; auto.
  - destruct (d_is d) as [i|]; simpl in *; [|exact I].
    destruct (i_cmd i) eqn:Ec; simpl; rewrite ?Ec, ?orb_true_r; simpl; rewrite ?Ec; simpl; auto;
      try (destruct H as [H|[H|H]]; try discriminate; auto; fail);
      destruct k; simpl; auto; destruct (d_depth d); simpl; auto.
  - destruct (e_boe e && err); destruct (d_is d) as [i|]; simpl in *; auto.
    + destruct (i_err i); simpl; auto;
      destruct k; simpl; auto; try (destruct (pred (d_depth d)); simpl; auto).
    + destruct (i_cmd i) eqn:Ec; simpl; auto;
        try (destruct (Nat.eqb _ _); simpl; auto); rewrite ?Ec; auto;
        destruct H as [H|[H|H]]; try discriminate; auto.
Qed.

(* arriving from a different line at an active breakpoint suspends the thread, unless it is
   being stepped out of (or over) a function or is being killed *)
Lemma visit_suspends e d line k :
  wf d -> must_suspend (bp_active (e_bps e)) (d_pos d) line = true ->
  (forall i, d_is d = Some i -> i_cmd i <> CStepOut /\ i_cmd i <> CKill) ->
  snd (handle e d (EVisit line) k) = true.
Proof.
  unfold wf, must_suspend, handle, visit_state. intros H Hm Hc.
  apply andb_true_iff in Hm as [Hb Hl]. rewrite Hb.
  destruct (d_is d) as [i|]; simpl; [|reflexivity].
  destruct (Hc i eq_refl) as [C1 C2].
  destruct (i_cmd i) eqn:Ec; try congruence; simpl; rewrite ?orb_true_r; try reflexivity;
    destruct H as [H|[H|H]]; try discriminate; rewrite H, Hl; reflexivity.
Qed.

(* every suspension at a node has a cause the user asked for *)
Lemma visit_cause e d line k :
  snd (handle e d (EVisit line) k) = true ->
  bp_active (e_bps e) line = true \/ e_bos e = true \/
  exists i, d_is d = Some i /\ (i_cmd i = CStop \/ i_cmd i = CStepIn \/ i_cmd i = CStepOver).
Proof.
  unfold handle, visit_state.
  destruct (d_is d) as [i|]; simpl.
  - destruct (i_cmd i) eqn:Ec; simpl;
      repeat match goal with |- context [if ?c then _ else _] => destruct c eqn:? end;
      simpl; try discriminate; intros _;
      try (right; right; exists i; rewrite Ec; auto; fail);
      match goal with H : (_ || _) = true |- _ => apply orb_true_iff in H as [?|?]; auto end.
  - destruct (bp_active (e_bps e) line || e_bos e) eqn:E; simpl; [|discriminate].
    intros _. apply orb_true_iff in E as [?|?]; auto.
Qed.

(* stepping out of a function passes active breakpoints (read from the code; see the
   finding note) *)
Lemma stepout_passes_breakpoints :
  exists e d line k, wf d /\ must_suspend (bp_active (e_bps e)) (d_pos d) line = true /\
                     snd (handle e d (EVisit line) k) = false.
Proof.
  exists (mkEnv [(5, true)] false false), (mkDt (Some (mkIs CStepOut 2 0 false)) 1 2), 5, KResume.
  split; [unfold wf; simpl; auto | split; reflexivity].
Qed.

(* ==================================================================================== *)
(* Part C: transparency *)

Section Transp.
  Variables (P D L : Type).
  Variable prog : P -> nat -> option P.
  Variable gate : D -> nat -> bool.
  Variable observe : D -> P -> nat -> D.
  Variable dbg : D -> L -> option D.

  Lemma erasure : Transparent P D (clabel L) prog (cstep prog gate observe dbg) erase.
  Proof.
    intros p d sched; revert p d.
    induction sched as [|l r IH]; intros p d p' d'; simpl.
    - intros [= <- <-]. reflexivity.
    - destruct l as [t|dl]; simpl.
      + destruct (gate d t); [|discriminate].
        destruct (prog p t) as [p1|]; [|discriminate]. apply IH.
      + destruct (dbg d dl) as [d1|]; [|discriminate]. apply IH.
  Qed.

  (* debugger steps alone never move the program *)
  Lemma dbg_steps_keep_program ls : forall p d d',
    run dbg d ls = Some d' ->
    run (cstep prog gate observe dbg) (p, d) (map CDbg ls) = Some (p, d').
  Proof.
    induction ls as [|l r IH]; intros p d d'; simpl.
    - intros [= <-]; reflexivity.
    - destruct (dbg d l) as [d1|]; [|discriminate]. apply IH.
  Qed.

  Lemma all_same_repeat (t : nat) (l : list nat) : Forall (fun x => x = t) l -> l = repeat t (length l).
  Proof. induction 1; simpl; congruence. Qed.

  Lemma complete_runs_agree t : forall n m p p1 p2,
    run prog p (repeat t n) = Some p1 -> prog p1 t = None ->
    run prog p (repeat t m) = Some p2 -> prog p2 t = None -> p1 = p2.
  Proof.
    induction n as [|n IH]; intros m p p1 p2; simpl.
    - intros [= <-] Hn. destruct m; simpl; [congruence|]. rewrite Hn. discriminate.
    - destruct (prog p t) as [q|] eqn:E; [|discriminate]. intros H1 N1.
      destruct m; simpl.
      + intros [= <-] N2. congruence.
      + rewrite E. intros H2 N2. eapply IH; eauto.
  Qed.

  (* a program run by one thread: the complete debugged run ends in the state in which the
     complete plain run ends *)
  Lemma same_outcome t p d sched p1 d1 m p2 :
    run (cstep prog gate observe dbg) (p, d) sched = Some (p1, d1) ->
    Forall (fun x => x = t) (erase sched) ->
    prog p1 t = None ->
    run prog p (repeat t m) = Some p2 -> prog p2 t = None ->
    p1 = p2.
  Proof.
    intros H Hall N1 H2 N2. apply erasure in H. rewrite (all_same_repeat t _ Hall) in H.
    eapply complete_runs_agree; eauto.
  Qed.
End Transp.

(* the instance: the debugger is the protocol of part A; a thread may execute program steps
   while it is not inside a suspension *)
Definition dgate (d : dstate) (t : nat) : bool := pc_eqb (t_pc (threads d t)) PRun.

Lemma running_released_run s t :
  Inv s -> t_running (threads s t) = true -> t_pc (threads s t) <> PDead ->
  exists n s', n <= 2 /\ run proto_new s (repeat (LThread t) n) = Some s' /\ t_pc (threads s' t) = PRun.
Proof.
  intros HI Hr Hd. destruct (running_released s t HI Hr) as [n [s' [Hn [Hrun Ha]]]].
  destruct Ha as [Ha|Ha]; [exists n, s'; auto|].
  exfalso. (* thread regions never end in PDead *)
  assert (K : forall n s s', run proto_new s (repeat (LThread t) n) = Some s' ->
                             t_pc (threads s' t) = PDead -> t_pc (threads s t) = PDead).
  { clear. induction n as [|n IH]; intros s s'; cbn [run repeat].
    - intros [= <-]; auto.
    - destruct (proto_new s (LThread t)) as [s1|] eqn:E; [|discriminate]. intros H Hd.
      specialize (IH _ _ H Hd). unfold proto_new, pstep in E.
      destruct (thread_region false (threads s t)) as [th'|] eqn:E2; [|discriminate].
      injection E as <-. simpl in IH. rewrite upd_same in IH.
      unfold thread_region in E2. destruct (t_pc (threads s t)); try discriminate; auto;
        simpl in E2; try (destruct (t_running (threads s t))); injection E2 as <-; discriminate. }
  apply Hd. eapply K; eauto.
Qed.

(* whenever a thread of the debugged program is held, debugger-side steps with at most one
   continue command (of any type) let it execute its next program step *)
Lemma can_proceed {P} (prog : P -> nat -> option P) observe (p : P) d t (k : ctype) :
  reachable proto_new dinit d -> t_pc (threads d t) <> PDead ->
  exists ls d',
    run (cstep prog dgate observe proto_new) (p, d) (map CDbg ls) = Some (p, d') /\
    dgate d' t = true /\
    length (filter (fun l => match l with LContBegin _ _ => true | _ => false end) ls) <= 1.
Proof.
  intros Hre Hd. assert (HI : Inv d) by (apply inv_reach; exact Hre).
  destruct (t_running (threads d t)) eqn:Er.
  - destruct (running_released_run d t HI Er Hd) as [n [d' [Hn [Hrun Hp]]]].
    exists (repeat (LThread t) n), d'. split; [apply dbg_steps_keep_program; exact Hrun|].
    split; [unfold dgate; rewrite Hp; reflexivity|].
    clear. induction n; simpl; auto.
  - assert (Hs : reported_suspended d t = true).
    { unfold reported_suspended. rewrite Er. destruct (HI t) as [_ [H2 H3]].
      destruct (t_reg (threads d t)) eqn:Eg; [reflexivity|].
      specialize (H2 Er). destruct (H3 eq_refl) as [Hp|Hp]; rewrite Hp in H2; discriminate. }
    destruct (suspended_released_by_continue d t k Hre Hs) as [d' [Hrun [Hp _]]].
    exists (release_sched d t k), d'. split; [apply dbg_steps_keep_program; exact Hrun|].
    split; [unfold dgate; rewrite Hp; reflexivity|].
    unfold release_sched. destruct (t_pc (threads d t)); simpl; auto.
Qed.
