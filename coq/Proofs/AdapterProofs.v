(* Proofs/AdapterProofs.v — lemmas for property C19 (the Go function bridge).
   Part 1: IEEE rounding of the Coq standard library's SpecFloat is exact on values that fit
   (used for (u)intN -> float64 up to 2^53 and float64 -> float32 on representable values);
   truncation.  Part 2: the argument loop, reflect.Call, received/run.  Part 3: results. *)
From Coq Require Import ZArith NArith List Bool String Lia Floats.SpecFloat Zpower.
From Ecal Require Import Common.Outcome Model.Adapter Spec.AdapterSpec.
Import ListNotations.
Local Open Scope Z_scope.

Lemma digits2_shift k m : digits2_pos (shift_pos k m) = (digits2_pos m + k)%positive.
Proof.
  unfold shift_pos. induction k using Pos.peano_ind.
  - simpl. lia.
  - rewrite Pos.iter_succ. simpl. rewrite IHk. lia.
Qed.

Lemma digits2_lower m : 2 ^ (Zpos (digits2_pos m) - 1) <= Zpos m.
Proof.
  induction m; simpl digits2_pos.
  - rewrite Pos2Z.inj_succ. replace (Z.succ (Zpos (digits2_pos m)) - 1) with (Z.succ (Zpos (digits2_pos m) - 1)) by lia.
    rewrite Z.pow_succ_r by lia. lia.
  - rewrite Pos2Z.inj_succ. replace (Z.succ (Zpos (digits2_pos m)) - 1) with (Z.succ (Zpos (digits2_pos m) - 1)) by lia.
    rewrite Z.pow_succ_r by lia. lia.
  - simpl. lia.
Qed.

Lemma digits2_le m n : 0 <= n -> Zpos m < 2 ^ n -> Zpos (digits2_pos m) <= n.
Proof.
  intros Hn H. pose proof (digits2_lower m) as L.
  assert (2 ^ (Zpos (digits2_pos m) - 1) < 2 ^ n) by lia.
  apply Z.pow_lt_mono_r_iff in H0; lia.
Qed.

Lemma binary_round_aux_exact (prec emax : Z) s mz ez :
  Zpos (digits2_pos mz) = prec -> 3 - emax - prec <= ez -> ez <= emax - prec ->
  binary_round_aux prec emax s (Zpos mz) ez loc_Exact = S754_finite s mz ez.
Proof.
  intros Hd H1 H2. unfold binary_round_aux, shr_fexp, shr_record_of_loc. simpl Zdigits2.
  unfold fexp, emin. rewrite Hd.
  replace (Z.max (prec + ez - prec) (3 - emax - prec) - ez) with 0 by lia.
  cbn [shr shr_m loc_of_shr_record round_nearest_even]. simpl Zdigits2. rewrite Hd.
  replace (Z.max (prec + ez - prec) (3 - emax - prec) - ez) with 0 by lia.
  cbn [shr shr_m]. 
  replace (Zle_bool ez (emax - prec)) with true; [reflexivity|].
  symmetry. apply Z.leb_le. lia.
Qed.

Lemma binary_round_exact (prec emax : Z) s m e :
  Zpos (digits2_pos m) <= prec ->
  3 - emax - prec <= Zpos (digits2_pos m) + e - prec ->
  Zpos (digits2_pos m) + e - prec <= emax - prec ->
  binary_round prec emax s m e =
    S754_finite s (match (prec - Zpos (digits2_pos m))%Z with Zpos k => shift_pos k m | _ => m end)
                (Zpos (digits2_pos m) + e - prec).
Proof.
  intros Hd H1 H2. unfold binary_round, shl_align, fexp, emin.
  rewrite Z.max_l by lia.
  destruct (prec - Zpos (digits2_pos m)) as [|k|k] eqn:Ek; try lia.
  - replace (Zpos (digits2_pos m) + e - prec - e) with 0 by lia.
    replace (Zpos (digits2_pos m) + e - prec) with e by lia.
    apply binary_round_aux_exact; lia.
  - replace (Zpos (digits2_pos m) + e - prec - e) with (Zneg k) by lia.
    apply binary_round_aux_exact; try lia.
    rewrite digits2_shift. lia.
Qed.

Lemma shift_pos_Z k m : Zpos (shift_pos k m) = Zpos m * 2 ^ Zpos k.
Proof. rewrite shift_pos_correct, Z.pow_pos_fold. lia. Qed.

Lemma of_Z_pos_exact (p : positive) (s : bool) :
  Zpos p < 2 ^ 53 ->
  int_value_is (binary_round 53 1024 s p 0) (if s then Zneg p else Zpos p).
Proof.
  intros H. pose proof (digits2_le p 53 ltac:(lia) H) as Hd.
  rewrite binary_round_exact by lia.
  unfold int_value_is.
  destruct (53 - Zpos (digits2_pos p)) as [|k|k] eqn:Ek; try lia.
  - replace (Zpos (digits2_pos p) + 0 - 53) with 0 by lia. simpl Z.max. destruct s; lia.
  - replace (Zpos (digits2_pos p) + 0 - 53) with (- Zpos k) by lia.
    rewrite Z.max_l by lia. rewrite Z.max_r by lia. rewrite Z.opp_involutive.
    rewrite Z.pow_0_r.
    assert (Zpos (shift_pos k p) = Zpos p * 2 ^ Zpos k) by apply shift_pos_Z.
    destruct s; lia.
Qed.

Lemma of_Z_exact z : Z.abs z <= 2 ^ 53 -> int_value_is (of_Z z) z.
Proof.
  intros H. unfold of_Z, binary_normalize.
  assert (P : 2 ^ 53 = 9007199254740992) by reflexivity.
  destruct z as [|p|p].
  - reflexivity.
  - destruct (Z.eq_dec (Zpos p) (2 ^ 53)) as [E|E].
    + inversion E. vm_compute. reflexivity.
    + apply (of_Z_pos_exact p false). simpl Z.abs in H. rewrite P in *. clear P. lia.
  - destruct (Z.eq_dec (Zpos p) (2 ^ 53)) as [E|E].
    + inversion E. vm_compute. reflexivity.
    + apply (of_Z_pos_exact p true). simpl Z.abs in H. rewrite P in *. clear P. lia.
Qed.

Lemma to_f32_exact x : f32_representable x -> same_value x (to_f32 x).
Proof.
  destruct x as [s|s| |s m e]; try reflexivity.
  unfold f32_representable, to_f32. intros (Hd & H1 & H2).
  rewrite binary_round_exact by lia. unfold same_value.
  destruct (24 - Zpos (digits2_pos m)) as [|k|k] eqn:Ek; try lia.
  - split; [reflexivity|]. replace (Zpos (digits2_pos m) + e - 24) with e by lia. reflexivity.
  - split; [reflexivity|].
    replace (Zpos (digits2_pos m) + e - 24) with (e - Zpos k) by lia.
    rewrite Z.min_r by lia.
    replace (e - (e - Zpos k)) with (Zpos k) by lia. rewrite Z.sub_diag, Z.pow_0_r.
    rewrite shift_pos_Z. lia.
Qed.

Lemma trunc_complete x t : trunc_is x t -> trunc x = Some t.
Proof.
  destruct x as [s|s| |s m e]; unfold trunc_is, trunc; try tauto.
  - intros ->. reflexivity.
  - intros (a & Ha & Hb & ->). f_equal.
    assert (mag_trunc m e = a) as ->; [|reflexivity].
    unfold mag_trunc. destruct e as [|p|p].
    + simpl in Hb. lia.
    + rewrite Z.max_l in Hb by lia. rewrite Z.max_r in Hb by lia. rewrite Z.pow_0_r in Hb. lia.
    + rewrite Z.max_r in Hb by lia. rewrite (Z.max_l 0 (Zneg p)) in Hb by lia. rewrite Z.pow_0_r in Hb.
      simpl Z.opp in Hb. assert (0 < 2 ^ Zpos p) by (apply Z.pow_pos_nonneg; lia).
      symmetry. apply Z.div_unique with (r := Zpos m - a * 2 ^ Zpos p); lia.
Qed.

Lemma trunc_sound x t : trunc x = Some t -> trunc_is x t.
Proof.
  destruct x as [s|s| |s m e]; unfold trunc_is, trunc; try discriminate.
  - intros [= <-]. reflexivity.
  - intros [= <-]. exists (mag_trunc m e). unfold mag_trunc. destruct e as [|p|p].
    + simpl. repeat split; lia.
    + rewrite Z.max_l by lia. rewrite Z.max_r by lia. rewrite Z.pow_0_r.
      assert (0 < 2 ^ Zpos p) by (apply Z.pow_pos_nonneg; lia). repeat split; nia.
    + rewrite Z.max_r by lia. rewrite (Z.max_l 0 (Zneg p)) by lia. rewrite Z.pow_0_r. simpl Z.opp.
      assert (0 < 2 ^ Zpos p) as HP by (apply Z.pow_pos_nonneg; lia).
      pose proof (Z.div_mod (Zpos m) (2 ^ Zpos p) ltac:(lia)) as E.
      pose proof (Z.mod_pos_bound (Zpos m) (2 ^ Zpos p) HP) as B.
      assert (0 <= Zpos m / 2 ^ Zpos p) by (apply Z.div_pos; lia).
      repeat split; nia.
Qed.

(* ---------------------------------------------------------------- conversion of one argument *)

Lemma conv_int_in_range oor k x t : trunc_is x t -> in_range k t = true -> conv_int oor k x = t.
Proof. intros H R. unfold conv_int. rewrite (trunc_complete _ _ H), R. reflexivity. Qed.

Lemma convert_number_arrives oor t a : arrives t a (convert_number oor t a).
Proof.
  unfold arrives, convert_number. destruct a; try reflexivity.
  destruct t; try reflexivity.
  - exists (conv_int oor k x). split; [reflexivity|]. intros tr H R. apply conv_int_in_range; assumption.
  - exists (to_f32 x). split; [reflexivity|]. apply to_f32_exact.
Qed.

Lemma convert_number_nil oor t : convert_number oor t GNil = GNil.
Proof. reflexivity. Qed.

(* ---------------------------------------------------------------- the argument loop *)

Fixpoint conv_all (oor : ikind -> num -> Z) (ins : list gtype) (args : list gval) {struct args} : list gval :=
  match args, ins with
  | a :: r, t :: ts => convert_number oor t a :: conv_all oor ts r
  | _, _ => []
  end.

Lemma build_args_ok oor : forall args ins fargs,
  build_args oor ins args = Ok fargs ->
  fargs = conv_all oor ins args /\ (List.length args <= List.length ins)%nat /\ List.length fargs = List.length args.
Proof.
  induction args as [|a rest IH]; intros ins fargs H.
  - simpl in H. inversion H; subst. destruct ins; simpl; repeat split; lia.
  - destruct ins as [|t ins']; [discriminate|].
    simpl in H.
    assert (P : obind (build_args oor ins' rest) (fun l => Ok (convert_number oor t a :: l)) = Ok fargs ->
                fargs = conv_all oor (t :: ins') (a :: rest) /\ (List.length (a :: rest) <= List.length (t :: ins'))%nat
                /\ List.length fargs = List.length (a :: rest)).
    { destruct (build_args oor ins' rest) as [l| | |] eqn:E; simpl; try discriminate.
      intros [= <-]. destruct (IH _ _ E) as (-> & L1 & L2). simpl. repeat split; lia. }
    destruct (typeof (convert_number oor t a)) as [g|].
    + destruct (gtype_eqb g t); [auto|]. destruct (gtype_eqb t T_LIST); [auto|discriminate].
    + destruct (kind_is_interface t); [discriminate|]. destruct (gtype_eqb t T_LIST); [auto|discriminate].
Qed.

Lemma build_args_no_fuel oor : forall args ins, build_args oor ins args <> OutOfFuel.
Proof.
  induction args as [|a rest IH]; intros ins; simpl; [discriminate|].
  destruct ins as [|t ins']; [discriminate|].
  assert (P : obind (build_args oor ins' rest) (fun l => Ok (convert_number oor t a :: l)) <> OutOfFuel).
  { specialize (IH ins'). destruct (build_args oor ins' rest); simpl; congruence. }
  destruct (typeof (convert_number oor t a)) as [g|].
  - destruct (gtype_eqb g t); [auto|]. destruct (gtype_eqb t T_LIST); [auto|discriminate].
  - destruct (kind_is_interface t); [discriminate|]. destruct (gtype_eqb t T_LIST); [auto|discriminate].
Qed.

Lemma conv_all_nil oor : forall args ins,
  (List.length args <= List.length ins)%nat -> In GNil args -> In GNil (conv_all oor ins args).
Proof.
  induction args as [|a rest IH]; intros ins L H; [destruct H|].
  destruct ins as [|t ins']; [simpl in L; lia|].
  simpl. destruct H as [->|H]; [left; reflexivity|right; apply IH; [simpl in L; lia|assumption]].
Qed.

Lemma conv_all_nth oor : forall args ins i a t,
  nth_error args i = Some a -> nth_error ins i = Some t ->
  nth_error (conv_all oor ins args) i = Some (convert_number oor t a).
Proof.
  induction args as [|a0 rest IH]; intros ins i a t Ha Ht; [destruct i; discriminate|].
  destruct ins as [|t0 ins']; [destruct i; discriminate|].
  destruct i; simpl in *.
  - inversion Ha; inversion Ht; reflexivity.
  - apply IH; assumption.
Qed.

(* ---------------------------------------------------------------- reflect.Call *)

Lemma call_args_ok s fargs recv :
  call_args s fargs = Ok recv ->
  (fixed_count s <= List.length fargs)%nat /\
  existsb is_nil fargs = false /\
  all_assignable (firstn (fixed_count s) fargs) (firstn (fixed_count s) (s_in s)) = true /\
  (s_variadic s = false -> List.length fargs = List.length (s_in s) /\ recv = fargs) /\
  (s_variadic s = true -> exists elem,
      nth_error (s_in s) (fixed_count s) = Some (TSlice elem) /\
      forallb (fun v => assignable (typeof v) elem) (skipn (fixed_count s) fargs) = true /\
      recv = firstn (fixed_count s) fargs ++ [GSlice elem (skipn (fixed_count s) fargs)]).
Proof.
  unfold call_args, fixed_count. intros H.
  destruct (s_variadic s && Nat.eqb (List.length (s_in s)) 0)%bool; [discriminate|].
  destruct (Nat.ltb (List.length fargs) _) eqn:E1; [discriminate|]. apply Nat.ltb_ge in E1.
  destruct (negb (s_variadic s) && Nat.ltb _ (List.length fargs))%bool eqn:E2; [discriminate|].
  destruct (existsb is_nil fargs) eqn:E3; [discriminate|].
  destruct (all_assignable _ _) eqn:E4; [|discriminate]. simpl negb in H. cbv iota in H.
  destruct (s_variadic s) eqn:V; rewrite ?V in *.
  - split; [assumption|]. split; [reflexivity|]. split; [reflexivity|]. split; [discriminate|].
    intros _. destruct (nth_error (s_in s) _) as [[]|] eqn:E5; try discriminate.
    destruct (forallb _ _) eqn:E6; [|discriminate]. injection H as <-. exists elem. auto.
  - split; [assumption|]. split; [reflexivity|]. split; [reflexivity|]. split; [|discriminate].
    intros _. simpl in E2. apply Nat.ltb_ge in E2. injection H as <-. split; [lia|reflexivity].
Qed.

Lemma call_args_no_fuel s fargs : call_args s fargs <> OutOfFuel.
Proof.
  unfold call_args.
  repeat match goal with |- (if ?c then _ else _) <> _ => destruct c; try discriminate end.
  destruct (nth_error _ _) as [[]|]; try discriminate.
  destruct (forallb _ _); discriminate.
Qed.

(* ---------------------------------------------------------------- received / run *)

Lemma received_ok oor s args recv :
  received oor s args = Ok recv ->
  build_args oor (s_in s) args = Ok (conv_all oor (s_in s) args) /\
  call_args s (conv_all oor (s_in s) args) = Ok recv /\
  (List.length args <= List.length (s_in s))%nat /\
  List.length (conv_all oor (s_in s) args) = List.length args.
Proof.
  unfold received. destruct (build_args oor (s_in s) args) as [fargs| | |] eqn:E; simpl; try discriminate.
  intros H. destruct (build_args_ok _ _ _ _ E) as (-> & L1 & L2). auto.
Qed.

Lemma received_no_fuel oor s args : received oor s args <> OutOfFuel.
Proof.
  unfold received. pose proof (build_args_no_fuel oor args (s_in s)).
  destruct (build_args oor (s_in s) args); simpl; try congruence. apply call_args_no_fuel.
Qed.

Lemma finish_ok_or_err r : (exists v, finish r = Ok v) \/ (exists e, finish r = Err e).
Proof. unfold finish. destruct (snd r); [right|left]; eexists; reflexivity. Qed.

Lemma run_total oor s f args : returns_or_errors (run oor s f args).
Proof.
  unfold returns_or_errors, run, run_raw.
  pose proof (received_no_fuel oor s args) as NF.
  destruct (received oor s args) as [recv|e|site|]; simpl; try congruence.
  - unfold after_call. destruct (f recv) as [vals|]; simpl.
    + destruct (finish_ok_or_err (conv_results (s_out s) vals)) as [[v ->]|[e ->]]; simpl; eauto.
    + right; eexists; reflexivity.
  - right; eexists; reflexivity.
  - right; eexists; reflexivity.
Qed.

(* the callee is entered exactly when [received] is Ok, and then with these arguments *)
Lemma run_entered oor s f args recv :
  received oor s args = Ok recv -> run oor s f args = recover_ (after_call s (f recv)).
Proof. intros H. unfold run, run_raw. rewrite H. reflexivity. Qed.

Lemma run_not_entered oor s args :
  (forall recv, received oor s args <> Ok recv) ->
  exists e, forall f, run oor s f args = Err e.
Proof.
  intros H. unfold run, run_raw. pose proof (received_no_fuel oor s args) as NF.
  destruct (received oor s args) as [recv|e|site|]; simpl.
  - exfalso; eapply H; reflexivity.
  - exists e; reflexivity.
  - eexists; reflexivity.
  - congruence.
Qed.

Lemma too_many_not_entered oor s args recv :
  (List.length (s_in s) < List.length args)%nat -> received oor s args <> Ok recv.
Proof. intros L H. apply received_ok in H. lia. Qed.

Lemma too_few_not_entered oor s args recv :
  (List.length args < fixed_count s)%nat -> received oor s args <> Ok recv.
Proof.
  intros L H. apply received_ok in H. destruct H as (_ & C & _ & L2).
  apply call_args_ok in C. lia.
Qed.

Lemma existsb_is_nil_In l : In GNil l -> existsb is_nil l = true.
Proof. intros H. apply existsb_exists. exists GNil. split; [assumption|reflexivity]. Qed.

Lemma null_not_entered oor s args recv : In GNil args -> received oor s args <> Ok recv.
Proof.
  intros N H. apply received_ok in H. destruct H as (_ & C & L & _).
  apply call_args_ok in C. destruct C as (_ & E & _).
  rewrite (existsb_is_nil_In _ (conv_all_nil oor args (s_in s) L N)) in E. discriminate.
Qed.

(* ---------------------------------------------------------------- what the callee receives *)

Lemma ikind_eqb_refl k : ikind_eqb k k = true.
Proof. destruct k; reflexivity. Qed.

Lemma gtype_eqb_refl t : gtype_eqb t t = true.
Proof. induction t; simpl; auto using ikind_eqb_refl. Qed.

Lemma nth_error_firstn_lt {A} : forall (l : list A) n i, (i < n)%nat -> nth_error (firstn n l) i = nth_error l i.
Proof.
  induction l as [|x l IH]; intros n i L.
  - rewrite firstn_nil. reflexivity.
  - destruct n; [lia|]. destruct i; simpl; [reflexivity|]. apply IH. lia.
Qed.

Lemma received_nth oor s args recv i a t :
  received oor s args = Ok recv ->
  nth_error args i = Some a -> nth_error (s_in s) i = Some t -> (i < fixed_count s)%nat ->
  nth_error recv i = Some (convert_number oor t a).
Proof.
  intros R Ha Ht Li. apply received_ok in R. destruct R as (_ & C & L & L2).
  pose proof (conv_all_nth oor args (s_in s) i a t Ha Ht) as N.
  apply call_args_ok in C. destruct C as (Lf & _ & _ & NV & V).
  destruct (s_variadic s) eqn:E.
  - destruct (V eq_refl) as (elem & _ & _ & ->).
    rewrite nth_error_app1 by (rewrite firstn_length; lia).
    rewrite nth_error_firstn_lt by assumption. exact N.
  - destruct (NV eq_refl) as (_ & ->). exact N.
Qed.

Lemma received_numeric_arg oor s args recv i x k tr :
  received oor s args = Ok recv ->
  nth_error args i = Some (GF64 x) -> nth_error (s_in s) i = Some (TInt k) -> (i < fixed_count s)%nat ->
  trunc_is x tr -> in_range k tr = true ->
  nth_error recv i = Some (GInt k tr).
Proof.
  intros R Ha Ht Li T IR. rewrite (received_nth _ _ _ _ _ _ _ R Ha Ht Li). simpl.
  rewrite (conv_int_in_range oor k x tr T IR). reflexivity.
Qed.

Lemma received_arrives oor s args recv i a t :
  received oor s args = Ok recv ->
  nth_error args i = Some a -> nth_error (s_in s) i = Some t -> (i < fixed_count s)%nat ->
  exists v, nth_error recv i = Some v /\ arrives t a v.
Proof.
  intros R Ha Ht Li. exists (convert_number oor t a). split.
  - eapply received_nth; eassumption.
  - apply convert_number_arrives.
Qed.

(* every fixed parameter holds a value assignable to its declared type; the variadic
   parameter holds a slice of its declared type whose elements are assignable to the element type *)
Lemma received_well_typed oor s args recv :
  received oor s args = Ok recv ->
  all_assignable (firstn (fixed_count s) recv) (firstn (fixed_count s) (s_in s)) = true.
Proof.
  intros R. apply received_ok in R. destruct R as (_ & C & _).
  apply call_args_ok in C. destruct C as (Lf & _ & A & NV & V).
  destruct (s_variadic s) eqn:E.
  - destruct (V eq_refl) as (elem & _ & _ & ->).
    rewrite firstn_app. rewrite firstn_length. rewrite Nat.min_l by assumption.
    rewrite Nat.sub_diag. simpl firstn at 2. rewrite app_nil_r.
    rewrite firstn_firstn. rewrite Nat.min_id. exact A.
  - destruct (NV eq_refl) as (_ & ->). exact A.
Qed.

(* ---------------------------------------------------------------- a matching call is entered *)

Lemma matches_typeof oor t a : arg_matches t a -> typeof (convert_number oor t a) = Some t.
Proof.
  destruct t as [| | | | | | |e| | |]; destruct a as [| | | | | |e' l| | |]; simpl; try tauto; try reflexivity.
  all: destruct e; try tauto. destruct e'; tauto.
Qed.

Lemma build_args_matching oor : forall ins args,
  Forall2 arg_matches ins args ->
  build_args oor ins args = Ok (conv_all oor ins args) /\
  Forall2 (fun t v => typeof v = Some t) ins (conv_all oor ins args).
Proof.
  induction 1 as [|t a ins args M F IH]; simpl.
  - split; [reflexivity|constructor].
  - destruct IH as (B & T). rewrite (matches_typeof oor t a M), gtype_eqb_refl, B. simpl.
    split; [reflexivity|]. constructor; [apply matches_typeof; assumption|assumption].
Qed.

Lemma typed_no_nil : forall ins fargs,
  Forall2 (fun t v => typeof v = Some t) ins fargs -> existsb is_nil fargs = false.
Proof. induction 1 as [|t v ins fargs T F IH]; simpl; [reflexivity|]. destruct v; try discriminate; simpl; assumption. Qed.

Lemma typed_assignable : forall ins fargs,
  Forall2 (fun t v => typeof v = Some t) ins fargs -> all_assignable fargs ins = true.
Proof.
  induction 1 as [|t v ins fargs T F IH]; simpl; [reflexivity|].
  rewrite T. simpl. rewrite gtype_eqb_refl. simpl. assumption.
Qed.

Lemma Forall2_len {A B} (R : A -> B -> Prop) l1 l2 : Forall2 R l1 l2 -> List.length l1 = List.length l2.
Proof. induction 1; simpl; congruence. Qed.

Lemma matching_call_entered oor s args :
  s_variadic s = false -> Forall2 arg_matches (s_in s) args ->
  received oor s args = Ok (conv_all oor (s_in s) args).
Proof.
  intros V M. destruct (build_args_matching oor _ _ M) as (B & T).
  unfold received. rewrite B. simpl. unfold call_args, fixed_count. rewrite V. simpl.
  pose proof (Forall2_len _ _ _ T) as L.
  rewrite <- L at 1. rewrite Nat.ltb_irrefl. rewrite L at 1. rewrite Nat.ltb_irrefl.
  rewrite (typed_no_nil _ _ T).
  rewrite firstn_all. rewrite L. rewrite firstn_all.
  rewrite (typed_assignable _ _ T). reflexivity.
Qed.

(* ---------------------------------------------------------------- results *)

Lemma convert_result_delivered t v : val_has_type t v -> delivered t v (convert_result t v).
Proof.
  destruct t; simpl.
  - intros (z & ->). exists k, z, (of_Z z). repeat split. apply of_Z_exact.
  - intros (x & ->). exists x. split; reflexivity.
  - intros (x & ->). exists x. split; reflexivity.
  - intros _. destruct v; reflexivity.
  - intros _. destruct v; reflexivity.
  - intros _. destruct v; reflexivity.
  - intros _. destruct v; reflexivity.
  - intros _. destruct v; reflexivity.
  - intros _. destruct v; reflexivity.
  - intros _. destruct v; reflexivity.
  - intros _. destruct v; reflexivity.
Qed.

Definition err_of (v : gval) : option gval := if is_nil v then None else Some v.

Lemma conv_results_spec : forall outs vals,
  Forall2 val_has_type outs vals ->
  match outs with
  | [] => conv_results outs vals = ([], None)
  | _ =>
    if gtype_eqb (last outs TIface) TErr
    then exists rs, conv_results outs vals = (rs, err_of (last vals GNil)) /\
                    delivered_all (removelast outs) (removelast vals) rs
    else exists rs, conv_results outs vals = (rs, None) /\ delivered_all outs vals rs
  end.
Proof.
  induction 1 as [|t v outs vals T F IH]; [reflexivity|].
  destruct F as [|t2 v2 outs2 vals2 T2 F2].
  - simpl. destruct (gtype_eqb t TErr).
    + exists []. split; [reflexivity|exact I].
    + exists [convert_result t v]. split; [reflexivity|]. simpl. split; [apply convert_result_delivered; assumption|exact I].
  - change (last (t :: t2 :: outs2) TIface) with (last (t2 :: outs2) TIface).
    change (last (v :: v2 :: vals2) GNil) with (last (v2 :: vals2) GNil).
    change (removelast (t :: t2 :: outs2)) with (t :: removelast (t2 :: outs2)).
    change (removelast (v :: v2 :: vals2)) with (v :: removelast (v2 :: vals2)).
    change (conv_results (t :: t2 :: outs2) (v :: v2 :: vals2))
      with (let (r, e) := conv_results (t2 :: outs2) (v2 :: vals2) in (convert_result t v :: r, e)).
    destruct (gtype_eqb (last (t2 :: outs2) TIface) TErr).
    + destruct IH as (rs & -> & D). exists (convert_result t v :: rs). split; [reflexivity|].
      split; [apply convert_result_delivered; assumption|assumption].
    + destruct IH as (rs & -> & D). exists (convert_result t v :: rs). split; [reflexivity|].
      split; [apply convert_result_delivered; assumption|assumption].
Qed.

Lemma run_results oor s f args recv vals :
  received oor s args = Ok recv -> f recv = CRet vals ->
  run oor s f args = finish (conv_results (s_out s) vals).
Proof.
  intros R C. rewrite (run_entered _ _ _ _ _ R), C. simpl.
  destruct (finish_ok_or_err (conv_results (s_out s) vals)) as [[v ->]|[e ->]]; reflexivity.
Qed.

Lemma finish_pack rs : finish (rs, None) = Ok (pack rs).
Proof. destruct rs as [|x [|y l]]; reflexivity. Qed.

Lemma run_results_plain oor s f args recv vals :
  received oor s args = Ok recv -> f recv = CRet vals ->
  Forall2 val_has_type (s_out s) vals ->
  gtype_eqb (last (s_out s) TIface) TErr = false ->
  exists rs, run oor s f args = Ok (pack rs) /\ delivered_all (s_out s) vals rs.
Proof.
  intros R C W NE. rewrite (run_results _ _ _ _ _ _ R C).
  pose proof (conv_results_spec _ _ W) as S.
  destruct (s_out s) as [|t outs] eqn:EO.
  - inversion W; subst. exists []. split; [apply finish_pack|exact I].
  - rewrite NE in S. destruct S as (rs & -> & D). exists rs. split; [apply finish_pack|assumption].
Qed.

Lemma run_results_trailing oor s f args recv outs0 vals0 ev :
  received oor s args = Ok recv -> s_out s = outs0 ++ [TErr] -> f recv = CRet (vals0 ++ [ev]) ->
  Forall2 val_has_type (s_out s) (vals0 ++ [ev]) ->
  match ev with
  | GNil => exists rs, run oor s f args = Ok (pack rs) /\ delivered_all outs0 vals0 rs
  | _ => run oor s f args = Err E_CALLEE
  end.
Proof.
  intros R EO C W. rewrite (run_results _ _ _ _ _ _ R C).
  pose proof (conv_results_spec _ _ W) as S. rewrite EO in *.
  destruct (outs0 ++ [TErr]) as [|t outs] eqn:E; [destruct outs0; discriminate|].
  rewrite <- E in S |- *. rewrite last_last in S. simpl gtype_eqb in S.
  destruct S as (rs & -> & D). rewrite last_last. rewrite !removelast_last in D.
  destruct ev; try reflexivity. exists rs. split; [apply finish_pack|assumption].
Qed.

(* ---------------------------------------------------------------- the ECAL call *)

Lemma ecal_call_total oor s f emp args : returns_or_errors (ecal_call oor s f emp args).
Proof.
  unfold ecal_call, execute_function.
  destruct (run_total oor s f args) as [[v ->]|[e ->]]; [left|right]; eexists; reflexivity.
Qed.

Lemma ecal_call_same oor s f emp args : ecal_call oor s f emp args = run oor s f args.
Proof. unfold ecal_call, execute_function. destruct (run oor s f args); reflexivity. Qed.
