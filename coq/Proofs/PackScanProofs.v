(* Proofs/PackScanProofs.v — lemmas about Model/PackScan.v against Spec/PackSpec.v *)
From Coq Require Import String Lia.
From Ecal Require Import Common.Bytes Common.Outcome Model.PackScan Spec.PackSpec.

(* ---------------------------------------------------------------- lists, prefixb, find_sub *)

Lemma prefixb_length p s : prefixb p s = true -> (length p <= length s)%nat.
Proof.
  intros H. apply prefixb_spec in H as [r ->]. rewrite app_length. lia.
Qed.

Lemma prefixb_app_long p s r : (length p <= length s)%nat -> prefixb p (s ++ r) = prefixb p s.
Proof.
  revert s; induction p as [|x p IH]; intros s Hl; [reflexivity|].
  destruct s as [|y s]; [simpl in Hl; lia|].
  simpl. rewrite IH; [reflexivity | simpl in Hl; lia].
Qed.

Lemma find_sub_unfold p s :
  find_sub p s =
  if prefixb p s then Some ([], skipn (length p) s)
  else match s with
       | [] => None
       | x :: s' => match find_sub p s' with
                    | Some (a, b) => Some (x :: a, b)
                    | None => None
                    end
       end.
Proof. destruct s; reflexivity. Qed.

Lemma find_sub_none_prefix p s : find_sub p s = None -> prefixb p s = false.
Proof. rewrite find_sub_unfold. destruct (prefixb p s); [discriminate | reflexivity]. Qed.

Lemma find_sub_occurs p s : occurs p s -> exists a b, find_sub p s = Some (a, b).
Proof.
  intros H. destruct (find_sub p s) as [[a b]|] eqn:E; [eauto|].
  exfalso. exact (find_sub_none _ _ E H).
Qed.

Lemma find_sub_not_occurs p s : ~ occurs p s -> find_sub p s = None.
Proof.
  intros H. destruct (find_sub p s) as [[a b]|] eqn:E; [|reflexivity].
  exfalso. apply H. exists a, b. exact (find_sub_some _ _ _ _ E).
Qed.

(* (L1) the first occurrence inside a prefix of the stream is the first occurrence in the stream *)
Lemma find_sub_app_found p s r a b :
  find_sub p s = Some (a, b) -> find_sub p (s ++ r) = Some (a, b ++ r).
Proof.
  revert a b; induction s as [|x s IH]; intros a b H.
  - rewrite find_sub_unfold in H. destruct (prefixb p []) eqn:Hp; [|discriminate].
    injection H as <- <-. apply prefixb_length in Hp. destruct p; [|simpl in Hp; lia].
    simpl. rewrite find_sub_unfold. reflexivity.
  - rewrite find_sub_unfold in H. rewrite find_sub_unfold.
    destruct (prefixb p (x :: s)) eqn:Hp.
    + injection H as <- <-. pose proof (prefixb_length _ _ Hp) as Hl.
      rewrite prefixb_app_long, Hp by exact Hl.
      rewrite skipn_app. replace (length p - length (x :: s))%nat with 0%nat by lia.
      reflexivity.
    + destruct (find_sub p s) as [[a' b']|] eqn:Hf; [|discriminate].
      injection H as <- <-.
      pose proof (find_sub_length _ _ _ _ Hf) as Hl.
      rewrite prefixb_app_long, Hp by (simpl; lia).
      change ((x :: s) ++ r) with (x :: (s ++ r)). cbv iota beta.
      rewrite (IH _ _ eq_refl). reflexivity.
Qed.

Definition shift_opt (w : bytes) (o : option (bytes * bytes)) : option (bytes * bytes) :=
  match o with Some (a, b) => Some (w ++ a, b) | None => None end.

(* (L2) bytes in front of the last |p|-1 bytes of a marker-free window can be dropped *)
Lemma find_sub_drop p w1 w2 r :
  find_sub p (w1 ++ w2) = None -> (length p <= length w2 + 1)%nat ->
  find_sub p (w1 ++ w2 ++ r) = shift_opt w1 (find_sub p (w2 ++ r)).
Proof.
  induction w1 as [|x w1 IH]; intros Hn Hl.
  - simpl. destruct (find_sub p (w2 ++ r)) as [[a b]|]; reflexivity.
  - pose proof (find_sub_none_prefix _ _ Hn) as Hp.
    rewrite find_sub_unfold in Hn. rewrite Hp in Hn.
    change ((x :: w1) ++ w2) with (x :: (w1 ++ w2)) in Hn. cbv iota beta in Hn.
    destruct (find_sub p (w1 ++ w2)) as [[a' b']|] eqn:Hf; [discriminate|].
    rewrite find_sub_unfold.
    replace ((x :: w1) ++ w2 ++ r) with (((x :: w1) ++ w2) ++ r) by (rewrite <- app_assoc; reflexivity).
    rewrite prefixb_app_long, Hp by (simpl; rewrite app_length; lia).
    change (((x :: w1) ++ w2) ++ r) with (x :: ((w1 ++ w2) ++ r)). cbv iota beta.
    rewrite <- app_assoc. rewrite (IH eq_refl Hl).
    destruct (find_sub p (w2 ++ r)) as [[a b]|]; reflexivity.
Qed.

(* the occurrence the packer wrote is the first one, given the guard *)
Lemma find_sub_packed p B Z :
  ~ occurs p (B ++ removelast p) -> find_sub p (B ++ p ++ Z) = Some (B, Z).
Proof.
  destruct p as [|c p0] eqn:Ep.
  { intros H. exfalso. apply H. exists [], (B ++ removelast []). reflexivity. }
  rewrite <- Ep. assert (Hne : p <> []) by (rewrite Ep; discriminate). clear Ep c p0.
  induction B as [|x B IH]; intros Hg.
  - simpl. rewrite find_sub_unfold.
    assert (Hp : prefixb p (p ++ Z) = true) by (apply prefixb_spec; exists Z; reflexivity).
    rewrite Hp, skipn_app_length. reflexivity.
  - rewrite find_sub_unfold.
    assert (Hp : prefixb p ((x :: B) ++ p ++ Z) = false).
    { destruct (prefixb p ((x :: B) ++ p ++ Z)) eqn:E; [|reflexivity].
      exfalso. apply Hg.
      rewrite (app_removelast_last 0 Hne) in E at 2.
      rewrite <- app_assoc in E.
      rewrite app_assoc in E.
      rewrite prefixb_app_long in E.
      - apply prefixb_spec in E as [r Hr]. exists [], r. exact Hr.
      - rewrite app_length. simpl.
        assert (length p = S (length (removelast p))).
        { rewrite (app_removelast_last 0 Hne) at 1. rewrite app_length. simpl. lia. }
        lia. }
    rewrite Hp. change ((x :: B) ++ p ++ Z) with (x :: (B ++ p ++ Z)). cbv iota beta.
    rewrite IH; [reflexivity|].
    intros [a [b Hab]]. apply Hg. exists (x :: a), b. simpl. rewrite Hab. reflexivity.
Qed.

(* ---------------------------------------------------------------- skipcount *)

Lemma skipcount_le s : (skipcount s <= length s)%nat.
Proof. induction s as [|c s IH]; cbn [skipcount length]; [lia|]. destruct (is_skip c); lia. Qed.

Lemma skipcount_app c r :
  skipcount (c ++ r) =
  if (skipcount c <? length c)%nat then skipcount c else (length c + skipcount r)%nat.
Proof.
  induction c as [|x c IH]; [reflexivity|].
  change ((x :: c) ++ r) with (x :: (c ++ r)). cbn [skipcount length].
  destruct (is_skip x).
  - rewrite IH. destruct (Nat.ltb_spec (skipcount c) (length c));
      destruct (Nat.ltb_spec (S (skipcount c)) (S (length c))); lia.
  - reflexivity.
Qed.

(* ---------------------------------------------------------------- the scan *)

(* what the scan has to answer, as a function of the whole stream *)
Definition scan_spec (marker F : bytes) : scan_result :=
  match find_sub marker F with
  | Some (a, b) => Found (length a + length marker + skipcount b)
  | None => NotFound
  end.

Definition shift_res (d : nat) (r : scan_result) : scan_result :=
  match r with
  | Ok (Some o) => Ok (Some (d + o)%nat)
  | _ => r
  end.

Lemma scan_spec_drop marker w1 w2 r :
  find_sub marker (w1 ++ w2) = None -> (length marker <= length w2 + 1)%nat ->
  scan_spec marker (w1 ++ w2 ++ r) = shift_res (length w1) (scan_spec marker (w2 ++ r)).
Proof.
  intros Hn Hl. unfold scan_spec. rewrite (find_sub_drop _ _ _ _ Hn Hl).
  destruct (find_sub marker (w2 ++ r)) as [[a b]|]; simpl; [|reflexivity].
  unfold Found. rewrite app_length. do 2 f_equal. lia.
Qed.

Section ScanProofs.
  Variable marker : bytes.
  Variables b1 b2 : nat.
  Variable short : nat -> nat.
  Hypothesis Hb1 : (1 <= b1)%nat.

  Local Notation keep := (keep marker b2).
  Local Notation bufcap := (bufcap marker b1 b2).
  Local Notation scan_loop := (scan_loop marker b1 b2 short).

  Lemma keep_marker : (length marker <= keep + 1)%nat.
  Proof. unfold PackScan.keep. lia. Qed.

  Lemma read_n_bounds k free avail :
    (1 <= free)%nat -> (1 <= avail)%nat ->
    (1 <= read_n short k free avail <= Nat.min free avail)%nat.
  Proof.
    intros Hf Ha. unfold read_n. destruct (Nat.min free avail) as [|m] eqn:E; [lia|]. lia.
  Qed.

  Lemma read_n_eof k free : read_n short k free 0 = 0%nat.
  Proof. unfold read_n. rewrite Nat.min_0_r. reflexivity. Qed.

  (* after the marker: skip white space / control bytes, across any number of reads *)
  Lemma loop_found fuel : forall k pos rest,
    (length rest + 1 <= fuel)%nat ->
    scan_loop fuel k [] pos true rest = Found (pos + skipcount rest).
  Proof.
    induction fuel as [|fuel IH]; intros k pos rest Hf; [lia|].
    cbn [PackScan.scan_loop].
    assert (Hcap : (1 <= bufcap)%nat) by (unfold PackScan.bufcap; lia).
    cbn [length]. destruct (Nat.ltb_spec bufcap 0) as [|_]; [lia|].
    rewrite Nat.sub_0_r.
    destruct (Nat.eqb_spec bufcap 0) as [|_]; [lia|]. cbn [negb andb app].
    destruct rest as [|c0 rest0] eqn:Er.
    - rewrite read_n_eof. cbn [length firstn skipn skipcount Nat.eqb Nat.ltb Nat.leb].
      reflexivity.
    - rewrite <- Er in *.
      assert (Hlen : (1 <= length rest)%nat) by (rewrite Er; simpl; lia).
      pose proof (read_n_bounds k bufcap (length rest) Hcap Hlen) as Hn.
      set (n := read_n short k bufcap (length rest)) in *.
      destruct (Nat.eqb_spec (length rest) 0) as [|_]; [lia|].
      pose proof (firstn_skipn n rest) as Hsplit.
      assert (Hlc : length (firstn n rest) = n) by (rewrite firstn_length; lia).
      assert (Hlr : length (skipn n rest) = (length rest - n)%nat) by apply skipn_length.
      replace (skipcount rest) with (skipcount (firstn n rest ++ skipn n rest))
        by (rewrite Hsplit; reflexivity).
      rewrite skipcount_app. cbv zeta iota beta.
      pose proof (skipcount_le (firstn n rest)) as Hle.
      destruct (Nat.ltb_spec (skipcount (firstn n rest)) (length (firstn n rest))) as [Hlt|Hge].
      + reflexivity.
      + rewrite IH by lia. unfold Found. do 2 f_equal. lia.
  Qed.

  (* before the marker: the carry invariant.  [win] holds at most [keep] bytes; what the
     loop answers from here is what the whole remaining stream demands, shifted by [pos]. *)
  Lemma loop_search fuel : forall k win pos rest,
    (length win <= keep)%nat -> (length rest + 1 <= fuel)%nat ->
    scan_loop fuel k win pos false rest = shift_res pos (scan_spec marker (win ++ rest)).
  Proof.
    induction fuel as [|fuel IH]; intros k win pos rest Hw Hf; [lia|].
    cbn [PackScan.scan_loop].
    assert (Hcap : (keep + 1 <= bufcap)%nat) by (unfold PackScan.bufcap; lia).
    destruct (Nat.ltb_spec bufcap (length win)) as [|_]; [lia|].
    destruct (Nat.eqb_spec (bufcap - length win) 0) as [|_]; [lia|]. cbn [negb andb].
    destruct rest as [|c0 rest0] eqn:Er.
    - (* end of the stream *)
      rewrite read_n_eof. cbn [length firstn skipn Nat.eqb]. rewrite app_nil_r.
      unfold scan_spec.
      destruct (find_sub marker win) as [[a b]|] eqn:Hfs.
      + destruct (skipcount b <? length b)%nat; unfold Found, shift_res; do 2 f_equal; lia.
      + destruct (keep <? length win)%nat; reflexivity.
    - rewrite <- Er in *.
      assert (Hlen : (1 <= length rest)%nat) by (rewrite Er; simpl; lia).
      assert (Hfree : (1 <= bufcap - length win)%nat) by lia.
      pose proof (read_n_bounds k _ _ Hfree Hlen) as Hn.
      set (n := read_n short k (bufcap - length win) (length rest)) in *.
      destruct (Nat.eqb_spec (length rest) 0) as [|_]; [lia|].
      pose proof (firstn_skipn n rest) as Hsplit.
      assert (Hlc : length (firstn n rest) = n) by (rewrite firstn_length; lia).
      assert (Hlr : length (skipn n rest) = (length rest - n)%nat) by apply skipn_length.
      set (c := firstn n rest) in *. set (rest1 := skipn n rest) in *.
      assert (Hall : win ++ rest = (win ++ c) ++ rest1)
        by (rewrite <- app_assoc, Hsplit; reflexivity).
      rewrite Hall.
      destruct (find_sub marker (win ++ c)) as [[a b]|] eqn:Hfs.
      + (* the marker is complete in the window *)
        unfold scan_spec. rewrite (find_sub_app_found _ _ rest1 _ _ Hfs).
        rewrite skipcount_app.
        pose proof (skipcount_le b) as Hle.
        destruct (Nat.ltb_spec (skipcount b) (length b)) as [Hlt|Hge].
        * unfold Found, shift_res. do 2 f_equal. lia.
        * rewrite loop_found by lia. unfold Found, shift_res. do 2 f_equal. lia.
      + destruct (Nat.ltb_spec keep (length (win ++ c))) as [Hlong|Hshort].
        * (* keep the last [keep] bytes *)
          set (d := (length (win ++ c) - keep)%nat).
          pose proof (firstn_skipn d (win ++ c)) as Hsp2.
          assert (Hl2 : length (skipn d (win ++ c)) = keep) by (rewrite skipn_length; lia).
          assert (Hl1 : length (firstn d (win ++ c)) = d) by (rewrite firstn_length; lia).
          rewrite IH by lia.
          rewrite <- Hsp2 at 2. rewrite <- app_assoc.
          rewrite scan_spec_drop.
          -- rewrite Hl1.
             destruct (scan_spec marker (skipn d (win ++ c) ++ rest1)) as [[o|]| | |];
               simpl; try reflexivity. do 2 f_equal. lia.
          -- rewrite Hsp2. exact Hfs.
          -- rewrite Hl2. exact keep_marker.
        * rewrite IH by lia. reflexivity.
  Qed.

  (* the scan computes exactly the first occurrence, for every stream *)
  Lemma scan_is_spec F : scan marker b1 b2 short F = scan_spec marker F.
  Proof.
    unfold scan. rewrite loop_search; [| simpl; lia | lia].
    simpl. destruct (scan_spec marker F) as [[o|]| | |]; reflexivity.
  Qed.

  Lemma scan_first_occurrence F a b :
    find_sub marker F = Some (a, b) ->
    scan marker b1 b2 short F = Found (length a + length marker + skipcount b).
  Proof. intros H. rewrite scan_is_spec. unfold scan_spec. rewrite H. reflexivity. Qed.

  Lemma scan_packed B Z :
    unambiguous marker B ->
    scan marker b1 b2 short (packed marker B Z) = Found (length B + length marker + skipcount Z).
  Proof. intros H. apply scan_first_occurrence. apply find_sub_packed. exact H. Qed.

  Lemma scan_finds_archive B Z :
    unambiguous marker B -> is_zip Z ->
    locates (scan marker b1 b2 short (packed marker B Z)) marker B.
  Proof.
    intros H [Z' ->]. unfold locates, archive_offset. rewrite scan_packed by exact H.
    unfold Found. cbn [skipcount]. change (is_skip 80) with false. cbv iota.
    do 2 f_equal. lia.
  Qed.

  Lemma scan_no_marker F : no_marker marker F -> scan marker b1 b2 short F = Ok None.
  Proof.
    intros H. rewrite scan_is_spec. unfold scan_spec.
    rewrite (find_sub_not_occurs _ _ H). reflexivity.
  Qed.

  Lemma scan_found_sound F off :
    scan marker b1 b2 short F = Ok (Some off) ->
    exists a b, F = a ++ marker ++ b /\ off = (length a + length marker + skipcount b)%nat /\
                forall a1 a2, a = a1 ++ a2 -> a2 <> [] -> prefixb marker (a2 ++ marker ++ b) = false.
  Proof.
    rewrite scan_is_spec. unfold scan_spec.
    destruct (find_sub marker F) as [[a b]|] eqn:E; [|discriminate].
    intros [= <-]. exists a, b. split; [exact (find_sub_some _ _ _ _ E)|].
    split; [reflexivity | exact (find_sub_first _ _ _ _ E)].
  Qed.

  Lemma scan_total F : exists r, scan marker b1 b2 short F = Ok r.
  Proof.
    rewrite scan_is_spec. unfold scan_spec.
    destruct (find_sub marker F) as [[a b]|]; eexists; reflexivity.
  Qed.
End ScanProofs.

(* ---------------------------------------------------------------- the guard for the ECAL marker *)

Lemma ecal_marker_tail_prefix k :
  (k <= 15)%nat -> prefixb (skipn k ECAL_MARKER) (removelast ECAL_MARKER) = false.
Proof.
  intros H. do 16 (destruct k as [|k]; [vm_compute; reflexivity|]). lia.
Qed.

Lemma ecal_marker_guard B :
  unambiguous ECAL_MARKER B <->
  (~ occurs ECAL_MARKER B /\ ~ exists B', B = B' ++ removelast ECAL_MARKER).
Proof.
  unfold unambiguous. split.
  - intros H. split.
    + intros [a [b ->]]. apply H. exists a, (b ++ removelast ECAL_MARKER).
      rewrite <- !app_assoc. reflexivity.
    + intros [B' ->]. apply H. exists B', (tl (removelast ECAL_MARKER)).
      rewrite <- app_assoc. reflexivity.
  - intros [Ho Hs] [a [b Hab]].
    apply app_eq_app in Hab as [l [[HB Hl]|[Ha Hl]]].
    + apply app_eq_app in Hl as [l2 [[HM Hr]|[Hl2 Hb]]].
      * (* ECAL_MARKER = l ++ l2, removelast ECAL_MARKER = l2 ++ b *)
        assert (Hlen : (length l <= 17)%nat).
        { apply (f_equal (@length N)) in HM. rewrite app_length in HM.
          change (length ECAL_MARKER) with 17%nat in HM. lia. }
        assert (Hl2 : l2 = skipn (length l) ECAL_MARKER) by (rewrite HM, skipn_app_length; reflexivity).
        assert (Hl1 : l = firstn (length l) ECAL_MARKER).
        { rewrite HM. rewrite firstn_app, Nat.sub_diag, firstn_all. simpl. rewrite app_nil_r. reflexivity. }
        assert (Hp : prefixb l2 (removelast ECAL_MARKER) = true) by (apply prefixb_spec; exists b; exact Hr).
        destruct (Nat.le_gt_cases (length l) 15) as [Hk|Hk].
        -- rewrite Hl2, ecal_marker_tail_prefix in Hp by exact Hk. discriminate.
        -- assert (Hc : length l = 16%nat \/ length l = 17%nat) by lia.
           destruct Hc as [Hc|Hc]; rewrite Hc in Hl1.
           ++ apply Hs. exists a. rewrite HB, Hl1. reflexivity.
           ++ apply Ho. exists a, []. rewrite HB, Hl1. reflexivity.
      * apply Ho. exists a, l2. rewrite HB, Hl2. reflexivity.
    + apply (f_equal (@length N)) in Hl. rewrite !app_length in Hl.
      change (length (removelast ECAL_MARKER)) with 16%nat in Hl.
      change (length ECAL_MARKER) with 17%nat in Hl. lia.
Qed.
