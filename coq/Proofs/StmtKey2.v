(* Proofs/StmtKey2.v — C08, statement level, extended guards (Spec/StmtFormatSpec2.v): the key
   lemma of Proofs/StmtKey.v re-stated for [wfS2] / [wfB2] / [wfT2] and re-proved for the
   statement kinds already covered (the position-independent helper lemmas of StmtKey.v are
   reused).  The continuation token of a statement must in addition not be `except`,
   `otherwise` or `finally` ([sepT2]); every token that follows a printed statement (";", a
   statement start, "}", EOF) satisfies that.  try / func: Proofs/StmtTry.v, Proofs/StmtFunc.v;
   the mutual induction: Proofs/StmtFinal2.v. *)
From Coq Require Import List String NArith Bool Arith Lia ZArith.
From Ecal Require Import Common.Bytes Common.Ast gen.Tokens gen.Grammar Spec.ParseSpec
     Model.Printer Proofs.PrinterProofs Model.StmtPrinter Spec.StmtFormatSpec Spec.StmtFormatSpec2 Model.Parser
     Proofs.StmtState Proofs.StmtExpr Proofs.StmtProofs Proofs.StmtKey.
Import ListNotations.
Local Open Scope string_scope.
Local Open Scope nat_scope.
Local Open Scope list_scope.

(* ---------------------------------------------------------------------------------- *)
(* the old guards imply the new ones *)

Lemma wf_mono :
  (forall s, wfS s -> wfS2 s) /\ (forall b, wfB b -> wfB2 b) /\ (forall r, wfT r -> wfT2 r) /\
  (forall (e : StmtPrinter.excepts), True) /\ (forall (o : oblock), True).
Proof.
  apply stmt_mutind; try (intros; exact I); cbn [wfS wfS2 wfB wfB2 wfT wfT2]; tauto.
Qed.

Lemma wfP_wfP2 b : wfP b -> wfP2 b.
Proof. intros (H1 & H2 & H3). split; [exact H1|]. split; [apply (proj1 (proj2 wf_mono)); exact H2 | exact H3]. Qed.

(* ---------------------------------------------------------------------------------- *)
(* the token after a statement *)

Definition sepT2 (ln : nat) (tc : tok) : Prop :=
  sepT ln tc /\ t_id tc <> TokenEXCEPT /\ t_id tc <> TokenOTHERWISE /\ t_id tc <> TokenFINALLY.

Lemma hstart_sep2 id v a ln ln' : hstartb id = true -> cont_id id = false -> ln < ln' -> sepT2 ln (tk ln' id v a).
Proof.
  intros H C L. split; [apply hstart_sep; assumption|]. cbn [tk t_id].
  repeat split; apply Nat.eqb_neq; apply (hstart_not id _ H); unfold closers; simpl; tauto.
Qed.

Lemma semi_sep2 ln ln' : ln < ln' -> sepT2 ln (tk ln' TokenSEMICOLON [] false).
Proof. intros H. split; [apply semi_sep; exact H|]. repeat split; discriminate. Qed.

Lemma rbrace_sep2 ln ln' : ln < ln' -> sepT2 ln (tk ln' TokenRBRACE [] false).
Proof. intros H. split; [apply rbrace_sep; exact H|]. repeat split; discriminate. Qed.

(* first token of a statement *)
Lemma stmt_head2 s : wfS2 s -> exists id v a r, pp_stmt s = Printer.T id v a :: r /\ hstartb id = true.
Proof.
  destruct s; cbn [wfS2]; intros W; unfold pp_stmt; fold pp_stmt; fold pp_lines; fold pp_tail; fold pp_excepts; fold pp_oblock;
    try (unfold kw; do 4 eexists; split; [reflexivity | vm_compute; reflexivity]).
  - destruct (pp_head_wfe e W) as (id & v & a & r & E & H1 & H2). rewrite E. do 4 eexists. split; [reflexivity|].
    apply expr_start_hstart; assumption.
Qed.

(* ---------------------------------------------------------------------------------- *)
(* the statements of the induction *)

Definition PS2 (s : stmt) : Prop :=
  wfS2 s -> forall f ln tc k,
    sepT2 ln tc -> (s = SReturn0 -> ln < t_line tc) ->
    List.length (lay ln (pp_stmt s)) + List.length k <= f ->
    exists i tr,
      run V (S f) 0 (pos false (lay ln (pp_stmt s) ++ tc :: k)) = ROk (i, tr) (st (Some (cn false tc)) k false)
      /\ strip tr = embed s /\ n_line tr = ln.
Definition PLines2 (b : sblock) : Prop :=
  wfB2 b -> forall f kf n acc ln K,
    n_line (snd n) < ln -> headk K ->
    List.length (lay ln (pp_more b ++ [kw TokenRBRACE])) + List.length K <= f ->
    List.length (lay ln (pp_more b ++ [kw TokenRBRACE])) + List.length K <= kf ->
    exists trs,
      stmts_new V (run V f) kf n acc (pos false (lay ln (pp_more b ++ [kw TokenRBRACE]) ++ K))
      = ROk (acc ++ trs) (pos false (rbrace (ln + nls (pp_more b)) :: K))
      /\ map strip trs = embed_block b.

(* parseInnerStatements, standing on the "{" *)
Definition PPis2 (b : sblock) : Prop :=
  wfB2 b -> forall f ln (c : cnode) K,
    t_id (fst c) = TokenLBRACE -> headk K ->
    List.length (lay ln (pp_lines b ++ [kw TokenRBRACE])) + List.length K <= f ->
    exists trs,
      pis V (run V f) (st (Some c) (lay ln (pp_lines b ++ [kw TokenRBRACE]) ++ K) false)
      = ROk (constructed TokenSTATEMENTS trs) (pos false K)
      /\ map strip trs = embed_block b.

Definition PB2 (b : sblock) : Prop := PLines2 b /\ PPis2 b.
Definition PT2 (r : iftail) : Prop :=
  wfT2 r -> forall f kf c acc ln tc k,
    known (t_id tc) = true -> t_id tc <> TokenELIF -> t_id tc <> TokenELSE ->
    List.length (lay ln (pp_tail r)) + S (List.length k) <= f ->
    List.length (lay ln (pp_tail r)) + S (List.length k) <= kf ->
    exists trs,
      guard_tail (run V f) c kf acc (pos false (lay ln (pp_tail r) ++ tc :: k))
      = ROk (rn c (acc ++ trs)) (st (Some (cn false tc)) k false)
      /\ map strip trs = embed_tail r.

(* ---------------------------------------------------------------------------------- *)
(* small facts *)

Lemma headk_stmt2 s ln rest : wfS2 s -> headk (lay ln (pp_stmt s) ++ rest).
Proof.
  intros W. destruct (stmt_head2 s W) as (id & v & a & r & E & H). rewrite E. cbn [lay app headk tk t_id].
  apply known_hstart; exact H.
Qed.

Lemma cur_stmt2 s ln rest b : wfS2 s ->
  exists id v a, hstartb id = true /\ head_id (pp_stmt s) = id /\
                 cur (pos b (lay ln (pp_stmt s) ++ rest)) = Some (cn b (tk ln id v a)).
Proof.
  intros W. destruct (stmt_head2 s W) as (id & v & a & r & E & H). exists id, v, a. rewrite E. auto.
Qed.
Lemma lay_stmt_pos2 s ln : wfS2 s -> 1 <= List.length (lay ln (pp_stmt s)).
Proof. intros W. destruct (stmt_head2 s W) as (id & v & a & r & E & H). rewrite E. cbn [lay List.length]. lia. Qed.

(* the head of the remaining lines of a block (";", a statement or the closing brace) separates *)
Lemma more_head2 (E : list item) r ln2 K (e : tok) :
  wfB2 r -> lay ln2 E = [e] -> (forall ln, ln < ln2 -> sepT2 ln e /\ ln < t_line e) ->
  (t_id e =? TokenSEMICOLON) = false ->
  exists tc2 k2, lay ln2 (pp_more r ++ E) ++ K = tc2 :: k2 /\
    (forall ln, ln < ln2 -> sepT2 ln tc2 /\ ln < t_line tc2) /\
    (r = BNil -> tc2 = e) /\
    (r <> BNil -> (t_id tc2 =? TokenEOF) = false).
Proof.
  intros W HE Hsep Hns. destruct r as [|s r].
  - cbn [pp_more app]. rewrite HE. cbn [app]. do 2 eexists. split; [reflexivity|]. split; [exact Hsep|]. split; [auto | congruence].
  - cbn [wfB2] in W. destruct W as (Ws & Wr).
    destruct (stmt_head2 s Ws) as (id & v & a & rr & E1 & H).
    cbn [pp_more]. rewrite <- !app_assoc. rewrite lay_app0 by apply nls_sep. rewrite lay_sep.
    destruct (continues (pp_stmt s)) eqn:C.
    + cbn [app]. do 2 eexists. split; [reflexivity|]. split; [|split; [discriminate | intros _; reflexivity]].
      intros ln Hl. split; [apply semi_sep2; exact Hl | exact Hl].
    + cbn [app]. rewrite E1 in *. cbn [lay app]. do 2 eexists. split; [reflexivity|].
      rewrite continues_head in C. split; [|split; [discriminate|]].
      * intros ln Hl. split; [apply hstart_sep2; assumption | exact Hl].
      * intros _. cbn [tk t_id]. apply (hstart_not id TokenEOF H). unfold closers; simpl; tauto.
Qed.

Lemma lines_head2 r ln2 K : wfB2 r ->
  exists tc2 k2, lay ln2 (pp_more r ++ [kw TokenRBRACE]) ++ K = tc2 :: k2 /\
    (forall ln, ln < ln2 -> sepT2 ln tc2 /\ ln < t_line tc2) /\ (t_id tc2 =? TokenEOF) = false.
Proof.
  intros W. destruct (more_head2 [kw TokenRBRACE] r ln2 K (rbrace ln2) W eq_refl) as (tc2 & k2 & E & Hs & Hn & Hc).
  - intros ln H. split; [apply rbrace_sep2; exact H | exact H].
  - reflexivity.
  - exists tc2, k2. split; [exact E|]. split; [exact Hs|].
    destruct r; [rewrite (Hn eq_refl); reflexivity | apply Hc; discriminate].
Qed.

(* ---------------------------------------------------------------------------------- *)
(* blocks from statements *)

Lemma lines_nil2 : PLines2 BNil.
Proof.
  intros _ f kf n acc ln K Hn HK Hf Hkf. destruct n as [ni nd]. cbn [snd] in Hn. exists []. split; [|reflexivity].
  cbn [pp_more app lay kw List.length] in Hkf.
  cbn [pp_more app lay kw nls]. rewrite Nat.add_0_r, app_nil_r. fold (rbrace ln). cbn [app].
  destruct kf as [|kf]; [lia|]. cbn [stmts_new]. unfold has_more. rewrite cur_pos_cons. cbn [cn fst rbrace tk t_id t_line].
  cbn [Nat.eqb TokenRBRACE TokenEOF TokenSEMICOLON].
  apply Nat.ltb_lt in Hn. rewrite Hn. unfold with_cur. rewrite cur_pos_cons. cbn [cn fst rbrace tk t_id].
  reflexivity.
Qed.

Lemma lines_cons2 s r : PS2 s -> PLines2 r -> PLines2 (BCons s r).
Proof.
  intros IHs IHr W f kf n acc ln K Hn HK Hf Hkf. destruct n as [ni nd]. cbn [snd] in Hn. cbn [wfB2] in W. destruct W as (Ws & Wr).
  rewrite lay_more_cons. rewrite lay_more_cons_len in Hf, Hkf. set (ln2 := S (ln + nls (pp_stmt s))) in *.
  destruct (lines_head2 r ln2 K Wr) as (tc2 & k2 & E2 & Hsep & _). rewrite E2.
  assert (Hlen2 : List.length (lay ln2 (pp_more r ++ [kw TokenRBRACE])) + List.length K = S (List.length k2)).
  { rewrite <- app_length, E2. reflexivity. }
  destruct (Hsep ln ltac:(unfold ln2; lia)) as [Hs2 Hl2].
  destruct (cur_stmt2 s ln (tc2 :: k2) false Ws) as (id & v & a & Hst & _ & Hcur).
  pose proof (lay_stmt_pos2 s ln Ws) as Hpos.
  destruct kf as [|kf]; [lia|]. destruct f as [|f]; [lia|].
  apply Nat.ltb_lt in Hn.
  assert (Hstep : stmts_new V (run V (S f)) (S kf) (ni, nd) acc
                    (pos false (lay ln (sep_of (pp_stmt s)) ++ lay ln (pp_stmt s) ++ tc2 :: k2)) =
                  (do n', s2 <- run V (S f) 0 (pos false (lay ln (pp_stmt s) ++ tc2 :: k2));
                   stmts_new V (run V (S f)) kf n' (acc ++ [snd n']) s2)).
  { rewrite lay_sep. destruct (continues (pp_stmt s)).
    - cbn [app]. cbn [stmts_new]. unfold has_more. rewrite cur_pos_cons. cbn [cn fst semit tk t_id Nat.eqb TokenSEMICOLON TokenEOF].
      unfold with_cur. rewrite cur_pos_cons. cbn [cn fst semit tk t_id Nat.eqb TokenSEMICOLON]. rewrite pos_cons.
      rewrite skipToken_pos by (try reflexivity; apply headk_stmt2; exact Ws). reflexivity.
    - cbn [app]. cbn [stmts_new]. unfold has_more. rewrite Hcur. cbn [cn fst tk t_id t_line].
      rewrite (hstart_not id TokenEOF Hst) by (unfold closers; simpl; tauto).
      rewrite (hstart_not id TokenSEMICOLON Hst) by (unfold closers; simpl; tauto).
      rewrite Hn. unfold with_cur. rewrite Hcur. cbn [cn fst tk t_id].
      rewrite (hstart_not id TokenSEMICOLON Hst) by (unfold closers; simpl; tauto).
      rewrite (hstart_not id TokenRBRACE Hst) by (unfold closers; simpl; tauto). reflexivity. }
  rewrite Hstep.
  destruct (IHs Ws f ln tc2 k2 Hs2 (fun _ => Hl2) ltac:(lia)) as (i & tr & Erun & Hstrip & Hline).
  rewrite Erun. cbn [rbind snd].
  change (st (Some (cn false tc2)) k2 false) with (pos false (tc2 :: k2)). rewrite <- E2.
  destruct (IHr Wr (S f) kf (i, tr) (acc ++ [tr]) ln2 K) as (trs & Eloop & Hmap).
  - cbn [snd]. rewrite Hline. unfold ln2. lia.
  - exact HK.
  - lia.
  - lia.
  - rewrite Eloop. exists (tr :: trs). split.
    + rewrite <- app_assoc. cbn [app]. rewrite nls_more_cons. unfold ln2. f_equal. f_equal. f_equal. unfold rbrace. f_equal. lia.
    + cbn [map embed_block]. rewrite Hstrip, Hmap. reflexivity.
Qed.

Lemma pis_nil2 : PPis2 BNil.
Proof.
  intros _ f ln c K Hc HK Hf. exists []. split; [|reflexivity].
  cbn [pp_lines app lay kw]. fold (rbrace ln). unfold pis.
  rewrite skipToken_pos by (try exact Hc; exact known_rbrace). cbn [rbind]. rewrite cur_pos_cons.
  cbn [cn fst rbrace tk t_id Nat.eqb TokenRBRACE]. rewrite pos_cons. cbn [rbind].
  rewrite skipToken_pos by (try reflexivity; exact HK). reflexivity.
Qed.

Lemma pis_cons2 s r : PS2 s -> PLines2 r -> PPis2 (BCons s r).
Proof.
  intros IHs IHr W f ln c K Hc HK Hf. cbn [wfB2] in W. destruct W as (Ws & Wr).
  rewrite lay_lines_cons. rewrite lay_lines_cons_len in Hf. set (ln2 := S (ln + nls (pp_stmt s))) in *.
  destruct (lines_head2 r ln2 K Wr) as (tc2 & k2 & E2 & Hsep & Hneof). rewrite E2.
  assert (Hlen2 : List.length (lay ln2 (pp_more r ++ [kw TokenRBRACE])) + List.length K = S (List.length k2)).
  { rewrite <- app_length, E2. reflexivity. }
  destruct (Hsep ln ltac:(unfold ln2; lia)) as [Hs2 Hl2].
  destruct (cur_stmt2 s ln (tc2 :: k2) false Ws) as (id & v & a & Hst & _ & Hcur).
  pose proof (lay_stmt_pos2 s ln Ws) as Hpos.
  destruct f as [|f]; [lia|].
  unfold pis. rewrite skipToken_pos by (try exact Hc; apply headk_stmt2; exact Ws). cbn [rbind].
  rewrite Hcur. cbn [cn fst tk t_id].
  rewrite (hstart_not id TokenRBRACE Hst) by (unfold closers; simpl; tauto).
  change (v_propagate V) with true. cbv iota.
  destruct (IHs Ws f ln tc2 k2 Hs2 (fun _ => Hl2) ltac:(lia)) as (i & tr & Erun & Hstrip & Hline).
  rewrite Erun. cbn [rbind snd]. rewrite cur_st.
  cbn [cn fst]. rewrite Hneof. rewrite fuel_of_st.
  change (st (Some (cn false tc2)) k2 false) with (pos false (tc2 :: k2)). rewrite <- E2.
  destruct (IHr Wr (S f) (S (List.length k2)) (i, tr) [tr] ln2 K) as (trs & Eloop & Hmap).
  - cbn [snd]. rewrite Hline. unfold ln2. lia.
  - exact HK.
  - lia.
  - lia.
  - rewrite Eloop. cbn [rbind]. rewrite pos_cons.
    rewrite skipToken_pos by (try reflexivity; exact HK). cbn [rbind].
    exists (tr :: trs). split; [reflexivity|]. cbn [map embed_block]. rewrite Hstrip, Hmap. reflexivity.
Qed.

(* ---------------------------------------------------------------------------------- *)
(* statement kinds *)

Lemma ps_expr2 e : PS2 (SExpr e).
Proof.
  intros W f ln tc k Hs0 _ Hf. pose proof (proj1 Hs0) as Hs. cbn [wfS2] in W. unfold pp_stmt in *.
  exists (root_id e), (setl ln (erase e)). split; [|split].
  - apply expr_run; try assumption; [apply Hs | apply sepT_stop; exact Hs].
  - cbn [embed]. apply strip_expr; exact W.
  - apply n_line_setl.
Qed.

Lemma ps_return0_2 : PS2 SReturn0.
Proof.
  intros _ f ln tc k Hs0 Hl _. pose proof (proj1 Hs0) as Hs. specialize (Hl eq_refl). unfold pp_stmt. rewrite lay_kw. cbn [lay app].
  pose proof Hs as (Kt & _).
  rewrite (run_kw f ln TokenRETURN "ndReturn") by (try discriminate; try reflexivity; exact Kt).
  rewrite null_den_return by reflexivity. unfold ndReturn, with_cur. rewrite cur_pos_cons. cbn [cn fst kwt tk t_line].
  destruct (Nat.eqb_spec ln (t_line tc)) as [Hq|_]; [lia|]. cbn [rbind]. rewrite pos_cons.
  rewrite finish_stmt with (ln := ln); [| exact Hs | unfold rn; cbn [snd fst]; rewrite mk_node_kw by discriminate; reflexivity].
  unfold rn. cbn [fst snd]. rewrite mk_node_kw by discriminate. do 2 eexists. split; [reflexivity|]. split; reflexivity.
Qed.

Lemma ps_return1_2 e : PS2 (SReturn1 e).
Proof.
  intros W f ln tc k Hs0 _ Hf. pose proof (proj1 Hs0) as Hs. cbn [wfS2] in W. unfold pp_stmt in *. rewrite lay_kw in *. cbn [app List.length] in *.
  pose proof Hs as (Kt & _).
  rewrite (run_kw f ln TokenRETURN "ndReturn") by (try discriminate; try reflexivity; apply headk_lay_pp; apply wfe_wf; exact W).
  rewrite null_den_return by reflexivity. unfold ndReturn, with_cur.
  destruct (pp_head_wfe e W) as (id & v & a & r & E & H1 & H2).
  assert (Hcur : cur (pos false (lay ln (pp e) ++ tc :: k)) = Some (cn false (tk ln id v a))) by (rewrite E; reflexivity).
  rewrite Hcur. cbn [cn fst kwt tk t_line]. rewrite Nat.eqb_refl.
  destruct f as [|f]; [lia|].
  rewrite expr_run by (try assumption; try (apply sepT_stop; exact Hs); lia).
  cbn [rbind snd].
  rewrite finish_stmt with (ln := ln); [| exact Hs | unfold rn; cbn [snd fst]; rewrite mk_node_kw by discriminate; reflexivity].
  unfold rn. cbn [fst snd]. rewrite mk_node_kw by discriminate. do 2 eexists. split; [reflexivity|]. split; [|reflexivity].
  cbn [strip map embed]. rewrite strip_expr by exact W. reflexivity.
Qed.

(* ---------------------------------------------------------------------------------- *)
(* elif / else tails *)
Lemma pt_none2 : PT2 INone.
Proof.
  intros _ f kf c acc ln tc k Kt Hne1 Hne2 Hf Hkf. exists []. split; [|reflexivity].
  cbn [pp_tail lay app pos]. rewrite app_nil_r. cbn [pp_tail lay List.length] in Hkf.
  destruct kf as [|kf]; [lia|]. unfold guard_tail. cbn [elifs].
  rewrite is_elif_false by exact Hne1. cbn [rbind]. unfold with_cur. rewrite cur_st. cbn [cn].
  apply Nat.eqb_neq in Hne2. rewrite Hne2. reflexivity.
Qed.

Lemma pt_else2 b : PPis2 b -> PT2 (IElse b).
Proof.
  intros IHb W f kf c acc ln tc k Kt Hne1 Hne2 Hf Hkf. cbn [wfT2] in W.
  cbn [pp_tail] in *. rewrite lay_kw in *.
  pose proof (lay_block_rest ln (pp_lines b) [] []) as Hl0. cbn [lay] in Hl0. rewrite !app_nil_r in Hl0.
  rewrite Hl0 in Hf, Hkf. cbn [List.length] in Hf, Hkf.
  cbn [app]. pose proof (lay_block_rest ln (pp_lines b) [] (tc :: k)) as Hl. cbn [lay app] in Hl.
  rewrite app_nil_r in Hl. rewrite Hl. clear Hl Hl0.
  destruct kf as [|kf]; [lia|]. unfold guard_tail. cbn [elifs]. cbn [pos]. rewrite cn_kw by discriminate.
  rewrite is_elif_false by (cbn [fst kwt tk t_id]; discriminate). cbn [rbind]. unfold with_cur. rewrite cur_st.
  cbn [kwt tk t_id Nat.eqb TokenELSE].
  rewrite skipToken_pos by (try reflexivity; cbn [headk kwt tk t_id]; exact known_lbrace). cbn [rbind pos].
  destruct (IHb W f (S ln) (cn false (kwt ln TokenLBRACE)) (tc :: k) eq_refl Kt ltac:(cbn [List.length]; lia)) as (trs & Epis & Hmap).
  rewrite Epis. cbn [rbind pos].
  eexists. split; [reflexivity|]. cbn [map embed_tail]. rewrite !strip_constructed. cbn [map]. rewrite !strip_constructed, Hmap. reflexivity.
Qed.

Lemma pt_elif2 g b r : PPis2 b -> PT2 r -> PT2 (IElif g b r).
Proof.
  intros IHb IHr W f kf c acc ln tc k Kt Hne1 Hne2 Hf Hkf. cbn [wfT2] in W. destruct W as (Wg & Wb & Wr & _).
  pose proof (wfe_wf g Wg) as Wg'.
  cbn [pp_tail] in *. rewrite lay_kw in *.
  pose proof (len_of _ _ (lay_guard_block ln g (pp_lines b) (pp_tail r) [] Wg')) as Hl0. rewrite !app_nil_r in Hl0.
  rewrite !app_length in Hl0. cbn [List.length] in Hl0. rewrite !app_length in Hl0.
  cbn [List.length] in Hf, Hkf. rewrite Hl0 in Hf, Hkf. clear Hl0.
  cbn [app]. rewrite lay_guard_block by exact Wg'. set (lnT := S (ln + nls (pp_lines b))) in *.
  destruct kf as [|kf]; [lia|]. destruct f as [|f]; [lia|].
  unfold guard_tail. cbn [elifs]. cbn [pos]. rewrite cn_kw by discriminate.
  rewrite is_tok_true by reflexivity.
  rewrite skipToken_pos by (try reflexivity; apply headk_lay_pp; exact Wg'). cbn [rbind].
  unfold guard_and_statements. unfold kwt.
  rewrite guard_expr by (try exact Wg; rewrite ?app_length; cbn [List.length]; rewrite ?app_length; cbn [List.length]; lia).
  cbn [rbind].
  destruct (IHb Wb (S f) (S ln) (cn true (tk ln TokenLBRACE [] false)) (lay lnT (pp_tail r) ++ tc :: k) eq_refl
                (headk_tail r lnT tc k Kt) ltac:(rewrite app_length; cbn [List.length]; lia)) as (trsb & Epis & Hmapb).
  unfold kwt in *. rewrite Epis. cbn [rbind snd].
  destruct (IHr Wr (S f) kf c (acc ++ [constructed TokenGUARD [setl ln (erase g)]; constructed TokenSTATEMENTS trsb]) lnT tc k Kt Hne1 Hne2
                ltac:(lia) ltac:(lia)) as (trs & Etail & Hmap).
  unfold guard_tail in Etail. rewrite Etail.
  eexists. split; [rewrite <- app_assoc; reflexivity|].
  cbn [app map embed_tail]. rewrite !strip_constructed. cbn [map]. rewrite strip_expr by exact Wg. rewrite Hmapb, Hmap. reflexivity.
Qed.

(* ---------------------------------------------------------------------------------- *)
(* if / for / mutex *)

Lemma ps_if2 g b r : PPis2 b -> PT2 r -> PS2 (SIf g b r).
Proof.
  intros IHb IHr W f ln tc k Hs0 _ Hf. pose proof (proj1 Hs0) as Hs. cbn [wfS2] in W. destruct W as (Wg & Wb & Wr).
  pose proof (wfe_wf g Wg) as Wg'. pose proof Hs as (Kt & _ & _ & _ & Hne1 & Hne2 & _).
  change (pp_stmt (SIf g b r)) with (kw TokenIF :: pp g ++ block (pp_lines b) ++ pp_tail r) in *.
  rewrite lay_kw in *.
  pose proof (len_of _ _ (lay_guard_block ln g (pp_lines b) (pp_tail r) [] Wg')) as Hl0. rewrite !app_nil_r in Hl0.
  rewrite !app_length in Hl0. cbn [List.length] in Hl0. rewrite !app_length in Hl0.
  cbn [List.length] in Hf. rewrite Hl0 in Hf. clear Hl0.
  cbn [app]. rewrite lay_guard_block by exact Wg'. set (lnT := S (ln + nls (pp_lines b))) in *.
  destruct f as [|f]; [lia|].
  rewrite (run_kw (S f) ln TokenIF "ndGuard") by (try discriminate; try reflexivity; apply headk_lay_pp; exact Wg').
  rewrite null_den_guard by reflexivity. rewrite ndGuard_eq.
  unfold guard_and_statements. change (kwt ln TokenLBRACE) with (tk ln TokenLBRACE [] false).
  rewrite guard_expr by (try exact Wg; rewrite ?app_length; cbn [List.length]; rewrite ?app_length; cbn [List.length]; lia).
  cbn [rbind].
  destruct (IHb Wb (S f) (S ln) (cn true (tk ln TokenLBRACE [] false)) (lay lnT (pp_tail r) ++ tc :: k) eq_refl
                (headk_tail r lnT tc k Kt) ltac:(rewrite app_length; cbn [List.length]; lia)) as (trsb & Epis & Hmapb).
  rewrite Epis. cbn [rbind snd]. rewrite fuel_of_pos by apply tail_nonempty.
  destruct (IHr Wr (S f) (List.length (lay lnT (pp_tail r) ++ tc :: k)) (kwt ln TokenIF, entd false TokenIF)
                [constructed TokenGUARD [setl ln (erase g)]; constructed TokenSTATEMENTS trsb] lnT tc k Kt Hne1 Hne2
                ltac:(lia) ltac:(rewrite app_length; cbn [List.length]; lia)) as (trs & Etail & Hmap).
  rewrite Etail. cbn [rbind].
  rewrite finish_stmt with (ln := ln); [| exact Hs | unfold rn; cbn [snd fst]; rewrite mk_node_kw by discriminate; reflexivity].
  unfold rn. cbn [fst snd]. rewrite mk_node_kw by discriminate. do 2 eexists. split; [reflexivity|]. split; [|reflexivity].
  rewrite entd_name. cbn [strip app map embed]. rewrite !strip_constructed. cbn [map]. rewrite strip_expr by exact Wg.
  rewrite Hmapb, Hmap. reflexivity.
Qed.
Lemma ps_for2 g b : PPis2 b -> PS2 (SFor g b).
Proof.
  intros IHb W f ln tc k Hs0 _ Hf. pose proof (proj1 Hs0) as Hs. cbn [wfS2] in W. destruct W as (Wg & Wb).
  pose proof (wfe_wf g Wg) as Wg'. pose proof Hs as (Kt & _).
  change (pp_stmt (SFor g b)) with (kw TokenFOR :: pp g ++ block (pp_lines b)) in *.
  rewrite lay_kw in *.
  pose proof (len_of _ _ (lay_guard_block0 ln g (pp_lines b) [] Wg')) as Hl0. rewrite !app_nil_r in Hl0.
  rewrite !app_length in Hl0. cbn [List.length] in Hl0.
  cbn [List.length] in Hf. rewrite Hl0 in Hf. clear Hl0.
  cbn [app]. rewrite lay_guard_block0 by exact Wg'.
  destruct f as [|f]; [lia|].
  rewrite (run_kw (S f) ln TokenFOR "ndLoop") by (try discriminate; try reflexivity; apply headk_lay_pp; exact Wg').
  rewrite null_den_loop by reflexivity. unfold ndLoop. change (kwt ln TokenLBRACE) with (tk ln TokenLBRACE [] false).
  rewrite guard_expr by (try exact Wg; rewrite ?app_length; cbn [List.length]; lia).
  cbn [rbind fst snd].
  destruct (IHb Wb (S f) (S ln) (cn true (tk ln TokenLBRACE [] false)) (tc :: k) eq_refl Kt
                ltac:(cbn [List.length]; lia)) as (trsb & Epis & Hmapb).
  rewrite Epis. cbn [rbind pos].
  rewrite finish_stmt with (ln := ln); [| exact Hs | unfold rn; cbn [snd fst]; rewrite mk_node_kw by discriminate; reflexivity].
  unfold rn. cbn [fst snd]. rewrite mk_node_kw by discriminate. do 2 eexists. split; [reflexivity|]. split; [|reflexivity].
  rewrite entd_name. cbn [strip map embed]. rewrite !strip_constructed. rewrite Hmapb.
  destruct (root_id g =? TokenIN); [rewrite strip_expr by exact Wg; reflexivity|].
  rewrite strip_constructed. cbn [map]. rewrite strip_expr by exact Wg. reflexivity.
Qed.

Lemma ps_mutex2 x b : PPis2 b -> PS2 (SMutex x b).
Proof.
  intros IHb W f ln tc k Hs0 _ Hf. pose proof (proj1 Hs0) as Hs. cbn [wfS2] in W. pose proof Hs as (Kt & _).
  change (pp_stmt (SMutex x b)) with (kw TokenMUTEX :: identt x :: block (pp_lines b) ++ [NL]) in *.
  rewrite lay_kw in *. unfold identt in *. cbn [lay] in *.
  pose proof (lay_block_rest ln (pp_lines b) [NL] []) as Hl0. cbn [lay] in Hl0. rewrite !app_nil_r in Hl0.
  rewrite Hl0 in Hf. cbn [List.length] in Hf.
  cbn [app]. pose proof (lay_block_rest ln (pp_lines b) [NL] (tc :: k)) as Hl. cbn [lay app] in Hl. rewrite Hl. clear Hl Hl0.
  destruct f as [|f]; [lia|].
  rewrite (run_kw (S f) ln TokenMUTEX "ndMutex") by (try discriminate; try reflexivity; vm_compute; reflexivity).
  rewrite null_den_mutex by reflexivity. unfold ndMutex. cbn [pos].
  rewrite acceptChild_pos by (try reflexivity; cbn [headk kwt tk t_id]; exact known_lbrace). cbn [rbind pos].
  destruct (IHb W (S f) (S ln) (cn false (kwt ln TokenLBRACE)) (tc :: k) eq_refl Kt
                ltac:(cbn [List.length]; lia)) as (trsb & Epis & Hmapb).
  rewrite Epis. cbn [rbind pos].
  rewrite finish_stmt with (ln := ln); [| exact Hs | unfold rn; cbn [snd fst]; rewrite mk_node_kw by discriminate; reflexivity].
  unfold rn. cbn [fst snd]. rewrite mk_node_kw by discriminate. do 2 eexists. split; [reflexivity|]. split; [|reflexivity].
  rewrite entd_name. cbn [strip map embed]. rewrite !strip_constructed. rewrite Hmapb.
  cbn [cn fst snd tk t_id]. fold (tk ln TokenIDENTIFIER x false). rewrite mk_node_tk, entd_name. reflexivity.
Qed.
