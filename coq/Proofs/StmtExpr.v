(* Proofs/StmtExpr.v — C08, statement level, part 1: the expression key lemma of
   Proofs/PrinterProofs.v re-proved against the FULL parser model Model/Parser.v (run /
   run_body / null_den / ld_loop with the look-ahead ring, the guard flag and token lines):
   the printed tokens of an expression tree, laid out on one line in front of any
   continuation token that does not continue the expression, are read back as the tree. *)
From Coq Require Import List String NArith Bool Arith Lia ZArith.
From Ecal Require Import Common.Bytes Common.Ast gen.Tokens gen.Grammar Spec.ParseSpec
     Model.Printer Proofs.PrinterProofs Model.StmtPrinter Spec.StmtFormatSpec Model.Parser Proofs.StmtState.
Import ListNotations.
Local Open Scope string_scope.
Local Open Scope nat_scope.
Local Open Scope list_scope.

Arguments known : simpl never.
Arguments entd : simpl never.
Arguments lookup_entry : simpl never.

(* ---------------------------------------------------------------------------------- *)
(* the two readings of the grammar table agree *)

Lemma lookup_is_entry_of id : lookup_entry id = entry_of id.
Proof. reflexivity. Qed.

Lemma entd_null id : ge_null (entd false id) = null_of id.
Proof. unfold entd, ent, null_of. cbn [andb]. change (lookup_entry id) with (entry_of id). destruct (entry_of id); reflexivity. Qed.
Lemma entd_binding id : ge_binding (entd false id) = binding id.
Proof. unfold entd, ent, binding. cbn [andb]. change (lookup_entry id) with (entry_of id). destruct (entry_of id); reflexivity. Qed.
Lemma entd_name id : ge_name (entd false id) = name_of id.
Proof. unfold entd, ent, name_of. cbn [andb]. change (lookup_entry id) with (entry_of id). destruct (entry_of id); reflexivity. Qed.
Lemma entd_left_infix id : is_infix id = true -> ge_left (entd false id) = "ldInfix".
Proof.
  unfold entd, ent, is_infix. cbn [andb]. change (lookup_entry id) with (entry_of id).
  destruct (entry_of id); [|discriminate]. intros H. apply String.eqb_eq in H. exact H.
Qed.

(* facts about the token kinds that start or continue an expression, by computation *)
Definition head_kind (id : nat) : bool :=
  is_term id || is_ident id || is_prefix id || is_infix id || (id =? TokenLPAREN) || (id =? TokenRPAREN).
Definition kind_check (e : grammar_entry) : bool :=
  implb (head_kind (ge_token e)) (known (ge_token e) && negb (ge_token e =? TokenLBRACE)).
Lemma kinds_ok : forallb kind_check grammar_table = true.
Proof. vm_compute. reflexivity. Qed.

Lemma head_kind_entry id : head_kind id = true -> exists e, In e grammar_table /\ ge_token e = id.
Proof.
  intros H. destruct (entry_of id) as [e|] eqn:E.
  - exists e. unfold entry_of in E. apply find_some in E. destruct E as [Hin Heq].
    apply Nat.eqb_eq in Heq. auto.
  - exfalso. unfold head_kind, is_term, is_ident, is_prefix, is_infix, null_of in H. rewrite E in H.
    cbn in H. destruct (Nat.eqb_spec id TokenLPAREN) as [Hq|Hq]; [rewrite Hq in E; vm_compute in E; discriminate|].
    destruct (Nat.eqb_spec id TokenRPAREN) as [Hr|Hr]; [rewrite Hr in E; vm_compute in E; discriminate|]. discriminate.
Qed.

Lemma head_kind_known id : head_kind id = true -> known id = true /\ id <> TokenLBRACE.
Proof.
  intros H. destruct (head_kind_entry id H) as [e [Hin He]].
  pose proof kinds_ok as K. rewrite forallb_forall in K. specialize (K e Hin).
  unfold kind_check in K. rewrite He, H in K. cbn in K.
  apply andb_true_iff in K. destruct K as [K1 K2]. split; [exact K1|].
  apply negb_true_iff in K2. apply Nat.eqb_neq in K2. exact K2.
Qed.

(* ---------------------------------------------------------------------------------- *)
(* expression trees of the theorem: [wf_expr] without the EOF terminal (the table gives the
   EOF token the denotation of a terminal; no source text contains it inside an expression) *)

Lemma wfe_wf t : wfe t -> wf_expr t.
Proof. induction 1; [apply WfAtom | apply WfBin | apply WfPre]; assumption. Qed.

(* ---------------------------------------------------------------------------------- *)
(* layout of line-break free item lists *)

Lemma lay_app ln a b : lay ln (a ++ b) = lay ln a ++ lay (ln + nls a) b.
Proof.
  revert ln. induction a as [|[id v al|] a IH]; intros ln; cbn [app lay nls].
  - rewrite Nat.add_0_r. reflexivity.
  - rewrite IH. reflexivity.
  - rewrite IH. f_equal. f_equal. lia.
Qed.

Lemma nls_app a b : nls (a ++ b) = nls a + nls b.
Proof. induction a as [|[id v al|] a IH]; cbn [app nls]; [reflexivity | exact IH | rewrite IH; reflexivity]. Qed.

Lemma lay_app0 ln a b : nls a = 0 -> lay ln (a ++ b) = lay ln a ++ lay ln b.
Proof. intros H. rewrite lay_app, H, Nat.add_0_r. reflexivity. Qed.

Lemma lay_length ln a : nls a = 0 -> List.length (lay ln a) = List.length a.
Proof.
  induction a as [|[id v al|] a IH]; cbn [lay nls List.length]; intros H; [reflexivity | rewrite IH by exact H; reflexivity | discriminate].
Qed.

Lemma nls_wrap b k : nls (wrap b k) = nls k.
Proof. destruct b; unfold wrap; [|reflexivity]. cbn [nls kw]. rewrite nls_app. cbn. lia. Qed.

Lemma nls_pp t : wf_expr t -> nls (pp t) = 0.
Proof.
  induction 1 as [id v i a ln Ha Hs | id v i a ln l r Hi Hl IHl Hr IHr He | id v i a ln x Hp Hel Hx IHx].
  - rewrite pp_leaf, classify_atom by assumption. reflexivity.
  - rewrite pp_bin, classify_bin by assumption. cbn [assemble]. rewrite nls_app. cbn [nls kw].
    rewrite !nls_wrap, IHl, IHr. reflexivity.
  - rewrite pp_pre, classify_pre by assumption. cbn [assemble nls kw]. rewrite nls_wrap. exact IHx.
Qed.

(* ---------------------------------------------------------------------------------- *)
(* states positioned at a token list *)

Definition pos (b : bool) (ts : list tok) : pst :=
  match ts with t :: r => st (Some (cn b t)) r b | [] => st None [] b end.

Definition headk (ts : list tok) : Prop :=
  match ts with t :: _ => known (t_id t) = true | [] => False end.

Lemma advance_pos o ts b : headk ts -> advance V (st o ts b) = ROk tt (pos b ts).
Proof. destruct ts as [|t r]; [intros []|]. intros K. apply advance_st; exact K. Qed.

Lemma skipToken_pos c id ts b : t_id (fst c) = id -> headk ts ->
  skipToken V id (st (Some c) ts b) = ROk tt (pos b ts).
Proof. destruct ts as [|t r]; [intros _ []|]. intros H K. apply skipToken_st; assumption. Qed.

Lemma acceptChild_pos c id ts b : t_id (fst c) = id -> headk ts ->
  acceptChild V id (st (Some c) ts b) = ROk (snd (rn c [])) (pos b ts).
Proof. destruct ts as [|t r]; [intros _ []|]. intros H K. apply acceptChild_st; assumption. Qed.

Lemma headk_app a b : headk a -> headk (a ++ b).
Proof. destruct a; [intros []|]. intros H. exact H. Qed.

Lemma toks_pos_le b ts : List.length (toks (pos b ts)) <= List.length ts.
Proof. destruct ts; cbn [pos]; rewrite toks_st; cbn [List.length]; lia. Qed.

(* run_body on a canonical state *)
Lemma run_body_st runf rb c ts b : headk ts -> ge_null (snd c) <> "" ->
  run_body V runf rb (st (Some c) ts b) =
  (do left, s2 <- null_den V runf c (pos b ts); ld_loop V runf (fuel_of s2) rb left s2).
Proof.
  intros K Hn. unfold run_body. rewrite cur_st, advance_pos by exact K. cbn [rbind].
  destruct c as [t e]. cbn [snd] in Hn. apply String.eqb_neq in Hn. rewrite Hn. reflexivity.
Qed.

(* the null denotation named by the table entry *)
Lemma null_den_term runf c s : ge_null (snd c) = "ndTerm" -> null_den V runf c s = ndTerm c s.
Proof. intros H. unfold null_den. rewrite H. reflexivity. Qed.
Lemma null_den_ident runf c s : ge_null (snd c) = "ndIdentifier" -> null_den V runf c s = ndIdentifier V runf c s.
Proof. intros H. unfold null_den. rewrite H. reflexivity. Qed.
Lemma null_den_prefix runf c s : ge_null (snd c) = "ndPrefix" -> null_den V runf c s = ndPrefix runf c s.
Proof. intros H. unfold null_den. rewrite H. reflexivity. Qed.
Lemma null_den_inner runf c s : ge_null (snd c) = "ndInner" -> null_den V runf c s = ndInner V runf c s.
Proof. intros H. unfold null_den. rewrite H. reflexivity. Qed.

(* ---------------------------------------------------------------------------------- *)
(* the continuation: a token that ends the expression printed on line [ln] *)

Definition stopP (rb ln : nat) (c : cnode) : Prop :=
  (ge_binding (snd c) <= rb \/ (ge_left (snd c) = "" /\ ln < t_line (fst c))) /\
  t_id (fst c) <> TokenDOT /\ t_id (fst c) <> TokenLPAREN /\
  (t_id (fst c) = TokenLBRACK -> t_line (fst c) <> ln).

Lemma stopP_mono a b ln c : stopP a ln c -> a <= b -> stopP b ln c.
Proof. intros [[H|H] R] Hab; (split; [|exact R]); [left; lia | right; exact H]. Qed.

Lemma ld_loop_stop runf kf rb ln left c k b :
  stopP rb ln c -> n_line (snd left) = ln -> 1 <= kf ->
  ld_loop V runf kf rb left (st (Some c) k b) = ROk left (st (Some c) k b).
Proof.
  intros [Hs _] Hl Hk. destruct kf as [|kf]; [lia|]. cbn [ld_loop]. unfold with_cur. rewrite cur_st.
  destruct c as [t e]. cbn [fst snd] in *.
  destruct (Nat.ltb_spec rb (ge_binding e)) as [Hlt|Hge]; [|reflexivity].
  destruct Hs as [Hs|[Hs1 Hs2]]; [lia|]. rewrite Hs1. cbn [String.eqb].
  rewrite Hl. destruct (Nat.ltb_spec ln (t_line t)); [reflexivity|lia].
Qed.

(* parseMore: nothing continues the identifier *)
Lemma parse_more_none runf kf line c k b :
  t_id (fst c) <> TokenDOT -> t_id (fst c) <> TokenLPAREN ->
  (t_id (fst c) = TokenLBRACK -> t_line (fst c) <> line) ->
  parse_more V runf (S kf) line (st (Some c) k b) = ROk [] (st (Some c) k b).
Proof.
  destruct c as [t e]. cbn [fst]. intros Hd Hp Hb. cbn [parse_more]. unfold with_cur. rewrite cur_st.
  apply Nat.eqb_neq in Hd. apply Nat.eqb_neq in Hp. rewrite Hd, Hp.
  destruct (Nat.eqb_spec (t_id t) TokenLBRACK) as [Hq|]; [|reflexivity].
  cbn [andb]. specialize (Hb Hq). apply Nat.eqb_neq in Hb. rewrite Hb. reflexivity.
Qed.

(* ---------------------------------------------------------------------------------- *)
(* nodes made from printed tokens *)

Lemma flags_odd id a : Nat.odd (flags_of id a) = (id =? TokenIDENTIFIER).
Proof. unfold flags_of. destruct (id =? TokenIDENTIFIER), a; reflexivity. Qed.
Lemma flags_leb id a : (2 <=? flags_of id a) = a.
Proof. unfold flags_of. destruct (id =? TokenIDENTIFIER), a; reflexivity. Qed.

Lemma mk_node_tk name ln id v a cs :
  mk_node name (tk ln id v a) cs = Node name v (id =? TokenIDENTIFIER) a ln cs.
Proof. unfold mk_node, tk. cbn [t_val t_flags t_line]. rewrite flags_odd, flags_leb. reflexivity. Qed.

Lemma setl_mk ln id kids : setl ln (mk id kids) = Node (name_of id) [] false false ln (map (setl ln) kids).
Proof. reflexivity. Qed.

Lemma n_line_setl ln t : n_line (setl ln t) = ln.
Proof. destruct t; reflexivity. Qed.

Lemma kw_flags id : id <> TokenIDENTIFIER -> (id =? TokenIDENTIFIER) = false.
Proof. intros H. apply Nat.eqb_neq. exact H. Qed.

(* an operator token is not the identifier token *)
Lemma infix_not_ident id : is_infix id = true -> (id =? TokenIDENTIFIER) = false.
Proof.
  intros H. destruct (Nat.eqb_spec id TokenIDENTIFIER) as [->|]; [vm_compute in H; discriminate | reflexivity].
Qed.
Lemma prefix_not_ident id : is_prefix id = true -> (id =? TokenIDENTIFIER) = false.
Proof.
  intros H. destruct (Nat.eqb_spec id TokenIDENTIFIER) as [->|]; [vm_compute in H; discriminate | reflexivity].
Qed.

Lemma root_bin id v i a ln l r : is_infix id = true -> root_id (Node (name_of id) v i a ln [l; r]) = id.
Proof. intros H. unfold root_id, classify. cbn [n_name n_children List.length]. rewrite classify_bin by exact H. reflexivity. Qed.
Lemma root_pre id v i a ln x : is_prefix id = true -> root_id (Node (name_of id) v i a ln [x]) = id.
Proof. intros H. unfold root_id, classify. cbn [n_name n_children List.length]. rewrite classify_pre by exact H. reflexivity. Qed.
Lemma root_atom id v i a ln : is_term id || is_ident id = true -> root_id (Node (name_of id) v i a ln []) = id.
Proof. intros H. unfold root_id, classify. cbn [n_name n_children List.length]. rewrite classify_atom by exact H. reflexivity. Qed.

(* ---------------------------------------------------------------------------------- *)
(* the key statement *)

Definition KeyP (t : node) : Prop :=
  forall f rb b ln tc k res,
    enter rb t -> known (t_id tc) = true -> stopP (redge t) ln (cn b tc) ->
    (forall kf, List.length k < kf ->
       ld_loop V (run V f) kf rb (root_id t, setl ln (erase t)) (st (Some (cn b tc)) k b) = res) ->
    List.length (pp t) + List.length k <= f ->
    run V (S f) rb (pos b (lay ln (pp t) ++ tc :: k)) = res.

Definition rparen (ln : nat) : tok := tk ln TokenRPAREN [] false.

Lemma stop_rparen rb ln b : stopP rb ln (cn b (rparen ln)).
Proof.
  unfold stopP, cn, rparen. cbn [fst snd tk t_id t_line].
  split; [left|repeat split; intros; discriminate].
  rewrite entd_irrel by discriminate. rewrite entd_binding, rparen_binding. lia.
Qed.

Lemma known_rparen : known TokenRPAREN = true. Proof. vm_compute. reflexivity. Qed.
Lemma known_lparen : known TokenLPAREN = true. Proof. vm_compute. reflexivity. Qed.

(* the first printed token of an expression *)
Lemma pp_head t : wf_expr t -> exists id v a r, pp t = Printer.T id v a :: r /\ head_kind id = true.
Proof.
  induction 1 as [id v i a ln Ha Hs | id v i a ln l r Hi Hl IHl Hr IHr He | id v i a ln x Hp Hel Hx IHx].
  - rewrite pp_leaf, classify_atom by assumption. cbn [assemble]. do 4 eexists. split; [reflexivity|].
    unfold head_kind. apply orb_true_iff in Ha. destruct Ha as [Ha|Ha]; rewrite Ha; rewrite ?orb_true_r; reflexivity.
  - rewrite pp_bin, classify_bin by assumption. cbn [assemble].
    destruct (needs (CBin id) 0 l); unfold wrap at 1.
    + cbn [app kw]. do 4 eexists. split; [reflexivity|]. unfold head_kind. rewrite Nat.eqb_refl, !orb_true_r. reflexivity.
    + destruct IHl as (id1 & v1 & a1 & r1 & E & H1). rewrite E. cbn [app]. do 4 eexists. split; [reflexivity|exact H1].
  - rewrite pp_pre, classify_pre by assumption. cbn [assemble kw]. do 4 eexists. split; [reflexivity|].
    unfold head_kind. rewrite Hp, !orb_true_r. reflexivity.
Qed.

Lemma headk_lay_pp t ln rest : wf_expr t -> headk (lay ln (pp t) ++ rest).
Proof.
  intros H. destruct (pp_head t H) as (id & v & a & r & E & Hk). rewrite E. cbn [lay app headk tk t_id].
  apply head_kind_known; exact Hk.
Qed.

Lemma run_S f rb s : run V (S f) rb s = run_body V (run V f) rb s.
Proof. reflexivity. Qed.

(* a (possibly parenthesised) operand *)
Lemma wrappedP c : wf_expr c -> KeyP c ->
  forall (w : bool) f rb b ln tc k res,
    (w = false -> enter rb c /\ stopP (redge c) ln (cn b tc)) -> known (t_id tc) = true ->
    (forall kf, List.length k < kf ->
       ld_loop V (run V f) kf rb (root_id c, setl ln (erase c)) (st (Some (cn b tc)) k b) = res) ->
    List.length (wrap w (pp c)) + List.length k <= f ->
    run V (S f) rb (pos b (lay ln (wrap w (pp c)) ++ tc :: k)) = res.
Proof.
  intros Hwf Hk w f rb b ln tc k res Hw Ktc Hcont Hf. destruct w; unfold wrap in *.
  - unfold kw. cbn [lay]. rewrite lay_app0 by (apply nls_pp; exact Hwf). cbn [lay app]. rewrite <- app_assoc. cbn [app pos].
    fold (rparen ln). cbn [List.length] in Hf. rewrite app_length in Hf. cbn [List.length] in Hf.
    rewrite run_S, run_body_st.
    2:{ apply headk_lay_pp; exact Hwf. }
    2:{ unfold cn. cbn [snd tk t_id]. rewrite entd_irrel by discriminate. rewrite entd_null. vm_compute. discriminate. }
    rewrite null_den_inner by (unfold cn; cbn [snd tk t_id]; rewrite entd_irrel by discriminate; rewrite entd_null; reflexivity).
    unfold ndInner. destruct f as [|f]; [lia|].
    rewrite (Hk f 0 b ln (rparen ln) (tc :: k) (ROk (root_id c, setl ln (erase c)) (st (Some (cn b (rparen ln))) (tc :: k) b))).
    + cbn [rbind]. rewrite skipToken_st by (try reflexivity; exact Ktc). cbn [rbind].
      apply Hcont. rewrite fuel_of_st. lia.
    + apply enter0; exact Hwf.
    + exact known_rparen.
    + apply stop_rparen.
    + intros kf Hkf. apply ld_loop_stop with (ln := ln); [apply stop_rparen | apply n_line_setl | lia].
    + cbn [List.length]. lia.
  - destruct (Hw eq_refl) as [He Hs]. apply Hk; assumption.
Qed.

Lemma cn_tk_kind b ln id v a : head_kind id = true -> cn b (tk ln id v a) = (tk ln id v a, entd false id).
Proof.
  intros H. unfold cn. cbn [tk t_id]. destruct (head_kind_known id H) as [_ Hne].
  rewrite entd_irrel by exact Hne. reflexivity.
Qed.

Lemma head_kind_infix id : is_infix id = true -> head_kind id = true.
Proof. intros H. unfold head_kind. rewrite H, !orb_true_r. reflexivity. Qed.
Lemma head_kind_prefix id : is_prefix id = true -> head_kind id = true.
Proof. intros H. unfold head_kind. rewrite H, !orb_true_r. reflexivity. Qed.
Lemma head_kind_atom id : is_term id || is_ident id = true -> head_kind id = true.
Proof. intros H. unfold head_kind. rewrite H. reflexivity. Qed.

Lemma keyP t : wfe t -> KeyP t.
Proof.
  induction 1 as [id v i a ln0 Ha Hne Hs | id v i a ln0 l r Hi Hl IHl Hr IHr He | id v i a ln0 x Hp Hel Hx IHx];
    intros f rb b ln tc k res Hen Ktc Hst Hcont Hf.
  - (* terminal *)
    set (v' := if has_value id then v else []).
    set (a' := if Nat.eqb id TokenSTRING then str_allow v a else false).
    assert (Htree : snd (rn (tk ln id v' a', entd false id) []) = setl ln (erase (Node (name_of id) v i a ln0 []))).
    { rewrite erase_atom by assumption. unfold rn. cbn [snd fst]. rewrite mk_node_tk, entd_name. cbn [setl map].
      subst a'. destruct (Nat.eqb id TokenSTRING) eqn:E; [rewrite (Hs eq_refl)|]; reflexivity. }
    unfold redge, classify in Hst. cbn [n_name n_children List.length] in Hst. rewrite classify_atom in Hst by assumption.
    rewrite root_atom in Hcont by assumption.
    rewrite pp_leaf, classify_atom in * by assumption. cbn [assemble] in *. fold v' a' in Hf |- *.
    cbn [lay app pos]. rewrite (cn_tk_kind b ln id v' a') by (apply head_kind_atom; exact Ha).
    rewrite run_S, run_body_st; [|exact Ktc|].
    2:{ cbn [snd]. rewrite entd_null. apply orb_true_iff in Ha. unfold is_term, is_ident in Ha.
        destruct Ha as [Ha|Ha]; apply String.eqb_eq in Ha; rewrite Ha; discriminate. }
    cbn [pos]. destruct (is_term id) eqn:Et.
    + rewrite null_den_term by (cbn [snd]; rewrite entd_null; apply String.eqb_eq; exact Et).
      unfold ndTerm. cbn [rbind]. rewrite fuel_of_st.
      rewrite <- Htree in Hcont. unfold rn in *. cbn [fst snd tk t_id] in *. apply Hcont. lia.
    + cbn [orb] in Ha.
      rewrite null_den_ident by (cbn [snd]; rewrite entd_null; apply String.eqb_eq; exact Ha).
      unfold ndIdentifier. rewrite fuel_of_st.
      destruct Hst as [_ [Hd [Hp Hb]]].
      rewrite parse_more_none by (cbn [fst tk t_line]; assumption).
      cbn [rbind]. rewrite fuel_of_st.
      rewrite <- Htree in Hcont. unfold rn in *. cbn [fst snd tk t_id] in *. apply Hcont. lia.
  - (* infix *)
    assert (Hc : classify (Node (name_of id) v i a ln0 [l; r]) = CBin id)
      by (unfold classify; cbn [n_name n_children List.length]; apply classify_bin; assumption).
    unfold enter in Hen. unfold redge in Hst. rewrite Hc in Hen, Hst.
    destruct (infix_facts id Hi) as (Hpos & Hacc & _).
    rewrite root_bin in Hcont by assumption.
    rewrite pp_bin in *. rewrite classify_bin in * by assumption. cbn [assemble] in *.
    set (bl := needs (CBin id) 0 l) in *. set (br := needs (CBin id) 1 r) in *.
    pose proof (wfe_wf l Hl) as Wl. pose proof (wfe_wf r Hr) as Wr.
    rewrite lay_app0 by (rewrite nls_wrap; apply nls_pp; exact Wl). unfold kw at 1. cbn [lay].
    rewrite <- app_assoc. cbn [app].
    rewrite app_length in Hf. cbn [List.length] in Hf.
    assert (Kop : known id = true) by (apply head_kind_known; apply head_kind_infix; exact Hi).
    assert (Hopne : id <> TokenDOT /\ id <> TokenLPAREN /\ id <> TokenLBRACK).
    { repeat split; intros ->; vm_compute in Hi; discriminate. }
    apply (wrappedP l Wl IHl bl f rb b ln (tk ln id [] false)); [| exact Kop | | rewrite app_length, lay_length by (rewrite nls_wrap; apply nls_pp; exact Wr); cbn [List.length]; lia].
    + intros Hbl. destruct (left_ok id l rb Wl Hbl Hen) as [He1 He2].
      split; [exact He1|]. rewrite cn_tk_kind by (apply head_kind_infix; exact Hi).
      unfold stopP. cbn [fst snd tk t_id t_line]. rewrite entd_binding.
      split; [left; exact He2|]. destruct Hopne as (H1 & H2 & H3). repeat split; try assumption. intros Hq; contradiction.
    + intros kf1 Hkf1. rewrite app_length, lay_length in Hkf1 by (rewrite nls_wrap; apply nls_pp; exact Wr). cbn [List.length] in Hkf1.
      destruct kf1 as [|kf1]; [lia|]. cbn [ld_loop]. unfold with_cur. rewrite cur_st.
      rewrite cn_tk_kind by (apply head_kind_infix; exact Hi).
      rewrite entd_binding. destruct (Nat.ltb_spec rb (binding id)) as [_|]; [|lia].
      rewrite (entd_left_infix id Hi). cbn [String.eqb Ascii.eqb Bool.eqb].
      rewrite advance_pos by (apply headk_app; rewrite <- (app_nil_r (lay ln (wrap br (pp r)))); destruct br; unfold wrap;
                              [cbn [lay kw app headk tk t_id]; exact known_lparen | apply headk_lay_pp; exact Wr]).
      cbn [rbind]. unfold left_den. cbn [snd]. rewrite (entd_left_infix id Hi). cbn [String.eqb Ascii.eqb Bool.eqb].
      unfold ldInfix. cbn [snd]. rewrite entd_binding.
      destruct f as [|f]; [lia|].
      rewrite (wrappedP r Wr IHr br f (binding id) b ln tc k (ROk (root_id r, setl ln (erase r)) (st (Some (cn b tc)) k b))).
      * cbn [rbind]. unfold rn. cbn [fst snd tk t_id]. rewrite mk_node_tk, entd_name, (infix_not_ident id Hi).
        rewrite (erase_bin id v i a ln0 l r Hi) in Hcont. rewrite setl_mk in Hcont. cbn [map] in Hcont.
        apply Hcont. lia.
      * intros Hbr. destruct (right_ok id r Wr He Hbr) as [He1 He2].
        split; [exact He1|]. eapply stopP_mono; eauto.
      * exact Ktc.
      * intros kf2 Hkf2. apply ld_loop_stop with (ln := ln); [exact Hst | apply n_line_setl | lia].
      * lia.
  - (* prefix *)
    assert (Hc : classify (Node (name_of id) v i a ln0 [x]) = CPre id)
      by (unfold classify; cbn [n_name n_children List.length]; apply classify_pre; assumption).
    unfold redge in Hst. rewrite Hc in Hst.
    rewrite root_pre in Hcont by assumption.
    rewrite pp_pre in *. rewrite classify_pre in * by assumption. cbn [assemble] in *.
    set (bx := needs (CPre id) 0 x) in *.
    pose proof (wfe_wf x Hx) as Wx.
    unfold kw at 1. cbn [lay app pos]. cbn [List.length] in Hf.
    rewrite cn_tk_kind by (apply head_kind_prefix; exact Hp).
    rewrite run_S, run_body_st.
    2:{ apply headk_app. rewrite <- (app_nil_r (lay ln (wrap bx (pp x)))). destruct bx; unfold wrap;
        [cbn [lay kw app headk tk t_id]; exact known_lparen | apply headk_lay_pp; exact Wx]. }
    2:{ cbn [snd]. rewrite entd_null. unfold is_prefix in Hp. apply String.eqb_eq in Hp. rewrite Hp. discriminate. }
    rewrite null_den_prefix by (cbn [snd]; rewrite entd_null; apply String.eqb_eq; exact Hp).
    unfold ndPrefix. cbn [snd]. rewrite entd_binding.
    destruct f as [|f]; [lia|].
    rewrite (wrappedP x Wx IHx bx f (binding id + 20) b ln tc k (ROk (root_id x, setl ln (erase x)) (st (Some (cn b tc)) k b))).
    + cbn [rbind]. rewrite fuel_of_st. unfold rn. cbn [fst snd tk t_id]. rewrite mk_node_tk, entd_name, (prefix_not_ident id Hp).
      rewrite (erase_pre id v i a ln0 x Hp) in Hcont. rewrite setl_mk in Hcont. cbn [map] in Hcont.
      apply Hcont. lia.
    + intros Hbx. destruct (pre_ok id x Wx Hbx) as [He1 He2].
      split; [exact He1|]. eapply stopP_mono; eauto.
    + exact Ktc.
    + intros kf2 Hkf2. apply ld_loop_stop with (ln := ln); [exact Hst | apply n_line_setl | lia].
    + lia.
Qed.
