(* Proofs/CascadeProofs.v — invariants of the cascade model over every schedule. *)
From Coq Require Import Lia ZifyBool.
From Ecal Require Import Model.Cascade Spec.CascadeSpec.

(* ---------------------------------------------------------------- weight sums *)
Section WSum.
  Variable w : mrec -> nat.
  Definition wf (mo : nat -> option mrec) (i : nat) : nat := match mo i with Some M => w M | None => 0 end.

  Lemma list_sum_app l1 l2 : list_sum (l1 ++ l2) = list_sum l1 + list_sum l2.
  Proof. induction l1; simpl; lia. Qed.

  Lemma sum_ext (f g : nat -> nat) l : (forall i, In i l -> f i = g i) -> list_sum (map f l) = list_sum (map g l).
  Proof. induction l; simpl; intros H; [reflexivity|]. rewrite H, IHl; auto. Qed.

  Lemma sum_upd (f g : nat -> nat) l m :
    NoDup l -> In m l -> (forall i, i <> m -> f i = g i) ->
    list_sum (map g l) + f m = list_sum (map f l) + g m.
  Proof.
    induction l as [|a l IH]; simpl; intros ND Hin Hext; [contradiction|].
    inversion ND; subst. destruct Hin as [->|Hin].
    - rewrite (sum_ext f g l); [lia|]. intros i Hi. apply Hext. intros ->; contradiction.
    - assert (a <> m) by (intros ->; contradiction).
      rewrite (Hext a H). specialize (IH H2 Hin Hext). lia.
  Qed.

  Lemma wsum_set_m s m M M' :
    NoDup (ids s) -> In m (ids s) -> mons s m = Some M ->
    wsum w (set_m s m M') + w M = wsum w s + w M'.
  Proof.
    intros ND Hin Hm. unfold wsum; simpl.
    pose proof (sum_upd (wf (mons s)) (wf (upd (mons s) m (Some M'))) (ids s) m ND Hin) as H.
    assert (E1 : wf (mons s) m = w M) by (unfold wf; rewrite Hm; reflexivity).
    assert (E2 : wf (upd (mons s) m (Some M')) m = w M') by (unfold wf, upd; rewrite Nat.eqb_refl; reflexivity).
    rewrite E1, E2 in H. apply H.
    intros i Hi. unfold wf, upd. destruct (Nat.eqb_spec i m); [contradiction|reflexivity].
  Qed.

  Lemma wsum_add_m s c C :
    ~ In c (ids s) -> wsum w (add_m s c C) = wsum w s + w C.
  Proof.
    intros Hn. unfold wsum; simpl. rewrite map_app, list_sum_app. simpl.
    unfold upd at 2. rewrite Nat.eqb_refl.
    rewrite (sum_ext _ (fun i => match mons s i with Some M => w M | None => 0 end)); [lia|].
    intros i Hi. unfold upd. destruct (Nat.eqb_spec i c); [subst; contradiction|reflexivity].
  Qed.

  Lemma wsum_zero s : wsum w s = 0 -> forall m M, In m (ids s) -> mons s m = Some M -> w M = 0.
  Proof.
    unfold wsum. induction (ids s) as [|a l IH]; simpl; intros H m M Hin Hm; [contradiction|].
    destruct Hin as [->|Hin]; [rewrite Hm in H; lia|]. apply (IH ltac:(lia) m M Hin Hm).
  Qed.

  Lemma wsum_ge s m M : In m (ids s) -> mons s m = Some M -> w M <= wsum w s.
  Proof.
    unfold wsum. induction (ids s) as [|a l IH]; simpl; intros Hin Hm; [contradiction|].
    destruct Hin as [->|Hin]; [rewrite Hm; lia|]. specialize (IH Hin Hm). lia.
  Qed.
End WSum.

Lemma wsum_set_r w s r R : wsum w (set_r s r R) = wsum w s. Proof. reflexivity. Qed.
Lemma wsum_set_obs w s r l : wsum w (set_obs s r l) = wsum w s. Proof. reflexivity. Qed.
Lemma wsum_set_q w s r q : wsum w (set_q s r q) = wsum w s. Proof. reflexivity. Qed.

(* ---------------------------------------------------------------- the invariant *)
Definition w_fz (r : nat) (M : mrec) : nat :=
  b2n (Nat.eqb (m_root M) r && match m_phase M with PFinZero => true | _ => false end).

Fixpoint count_cb (k : cb) (l : list cb) : nat :=
  match l with [] => 0 | x :: t => (match k, x with CbWaiter, CbWaiter | CbHandler, CbHandler | CbTq, CbTq => 1 | _, _ => 0 end) + count_cb k t end.

(* callbacks of kind k whose first part the poster has still to perform *)
Definition w_pend (k : cb) (r : nat) (M : mrec) : nat :=
  if Nat.eqb (m_root M) r
  then match m_phase M with
       | PPosting cbs half => count_cb k (if half then tl cbs else cbs)
       | _ => 0 end
  else 0.

Definition mon_ok (M : mrec) : Prop :=
  match m_phase M with
  | PCreated | PActivated => m_stamps M = [] /\ m_attached M = false /\ m_inflight M = true /\ m_skipped M = false
  | PQueued => m_stamps M = [] /\ m_attached M = false /\ m_inflight M = false /\ m_skipped M = false
  | PRun _ _ | PProcDone => m_attached M = false /\ m_inflight M = false /\ m_skipped M = false
  | PErrSet => m_attached M = true /\ failed_of M <> [] /\ m_inflight M = false /\ m_skipped M = false
  | PFinZero => (m_attached M = true <-> failed_of M <> []) /\ (m_skipped M = true -> m_inflight M = true)
  | PPosting cbs half => (m_attached M = true <-> failed_of M <> []) /\ cbs <> [] /\
                         (half = true -> match cbs with CbTq :: _ => False | _ => True end) /\
                         (m_skipped M = true -> m_inflight M = true)
  | PDone => (m_attached M = true <-> failed_of M <> []) /\ m_inflight M = false
  end.

Definition apc_ok (R : rrec) (M : mrec) : Prop :=
  (m_skipped M = true -> r_trig R = false) /\
  match r_apc R with
  | ANew | AObsW => m_phase M = PCreated /\ r_trig R = false
  | AGo => m_skipped M = false -> r_trig R = true
  | AWaiting => r_wait R = true /\ r_trig R = true /\ m_inflight M = false /\ m_phase M <> PCreated /\ m_skipped M = false
  | ARet => m_inflight M = false /\ m_phase M <> PCreated /\ (r_wait R = true -> r_trig R = true -> r_released R = true)
  end.

Definition regW (R : rrec) : nat := match r_apc R with ANew => 0 | _ => b2n (r_wait R) end.

Record Inv (s : state) : Prop := mkInv {
  i_nodup : NoDup (ids s);
  i_ids : forall m, In m (ids s) <-> mons s m <> None;
  i_root : forall m M, mons s m = Some M -> exists R, roots s (m_root M) = Some R;
  i_rootmon : forall r R, roots s r = Some R -> exists M, mons s r = Some M /\ m_root M = r /\ m_parent M = None /\ apc_ok R M;
  i_self : forall m M, mons s m = Some M -> m_parent M = None -> m_root M = m;
  i_count : forall r R, roots s r = Some R -> r_unf R = Z.of_nat (count_unf s r);
  i_cross : forall r R, roots s r = Some R -> r_crossed R = if Z.eqb (r_unf R) 0 then 1 else 0;
  i_post : forall r R, roots s r = Some R -> r_posted R + wsum (w_fz r) s = r_crossed R;
  i_poster : forall m M R cbs h, mons s m = Some M -> m_phase M = PPosting cbs h -> roots s (m_root M) = Some R -> 1 <= r_posted R;
  i_waiter : forall r R M, roots s r = Some R -> mons s r = Some M ->
      b2n (r_released R) + wsum (w_pend CbWaiter r) s + (if Nat.eqb (r_posted R) 0 then count_cb CbWaiter (obs s r) else 0) <= regW R /\
      (m_skipped M = false ->
       b2n (r_released R) + wsum (w_pend CbWaiter r) s + (if Nat.eqb (r_posted R) 0 then count_cb CbWaiter (obs s r) else 0) = regW R);
  i_handler : forall r R, roots s r = Some R ->
      r_handler R + wsum (w_pend CbHandler r) s + (if Nat.eqb (r_posted R) 0 then count_cb CbHandler (obs s r) else 0) = b2n (r_trig R);
  i_wg : forall r R, roots s r = Some R -> r_wg R = (Z.of_nat (b2n (r_wait R)) - Z.of_nat (b2n (r_released R)))%Z;
  i_rel : forall r R, roots s r = Some R -> r_released R = true -> 1 <= r_posted R;
  i_mon : forall m M, mons s m = Some M -> mon_ok M;
  i_errs : forall r R, roots s r = Some R -> NoDup (r_errors R) /\
      forall m, In m (r_errors R) <-> exists M, mons s m = Some M /\ m_root M = r /\ m_attached M = true;
  i_q1 : forall r q, queues s r = Some q -> NoDup q /\
      forall m, In m q -> exists M, mons s m = Some M /\ m_root M = r /\ m_phase M = PQueued;
  i_q2 : forall m M, mons s m = Some M -> m_phase M = PQueued -> exists q, queues s (m_root M) = Some q /\ In m q;
  i_fresh : forall r, roots s r = None -> obs s r = [];
  i_panic : s_panic s = None
}.

(* ---------------------------------------------------------------- step inversion *)
Ltac inv_step H :=
  unfold step, dec, next_cb in H;
  repeat match type of H with
         | match ?x with _ => _ end = Some _ => let E := fresh "E" in destruct x eqn:E; try discriminate H
         | (if ?x then _ else _) = Some _ => let E := fresh "E" in destruct x eqn:E; try discriminate H
         end;
  try (injection H as H); subst.

Lemma init_inv : Inv init.
Proof.
  constructor; simpl; try (intros; discriminate); try reflexivity.
  - constructor.
  - intros m; split; [intros [] | intros H; apply H; reflexivity].
Qed.


Definition R0 (w : bool) : rrec := mkR 1 [] 0 0 0 w false false (if w then 1 else 0)%Z ANew.
Definition M0 (r : nat) (p : option nat) : mrec := mkM r p PCreated true [] false false.

Inductive Dec (s : state) (m : nat) (M : mrec) : state -> Prop :=
| Dec_zero R : roots s (m_root M) = Some R -> (r_unf R - 1 = 0)%Z ->
    Dec s m M (set_m (set_r s (m_root M) (with_unf R (r_unf R - 1) (S (r_crossed R)))) m (with_phase M PFinZero))
| Dec_pos R : roots s (m_root M) = Some R -> (r_unf R - 1 <> 0)%Z ->
    Dec s m M (set_m (set_r s (m_root M) (with_unf R (r_unf R - 1) (r_crossed R))) m (returned M PDone)).

Lemma dec_Dec s m M s' : dec s m M = Some s' -> Dec s m M s'.
Proof.
  unfold dec. destruct (roots s (m_root M)) as [R|] eqn:E; [|discriminate].
  destruct (Z.eqb_spec (r_unf R - 1) 0); intros [= <-]; [eapply Dec_zero | eapply Dec_pos]; eauto.
Qed.

Definition no_tq_left (s : state) (r : nat) : Prop :=
  match queues s r with Some (_ :: _) => False | _ => True end.

Inductive Step (s : state) : label -> state -> Prop :=
| S_NewRoot r w : mons s r = None -> roots s r = None ->
    Step s (LNewRoot r w) (add_m (set_r s r (R0 w)) r (M0 r None))
| S_ObsWaiter r R : roots s r = Some R -> r_apc R = ANew -> r_wait R = true ->
    Step s (LObsWaiter r) (set_obs (set_r s r (with_apc R AObsW)) r (obs s r ++ [CbWaiter]))
| S_ObsHandler r R : roots s r = Some R -> pre_go R = true ->
    Step s (LObsHandler r) (set_obs (set_r s r (with_trig R)) r (obs s r ++ [CbHandler]))
| S_SkipChild m M p s' : mons s m = Some M -> m_phase M = PCreated -> m_parent M = Some p ->
    Dec s m (skipped M) s' -> Step s (LSkip m) s'
| S_SkipRoot m M R s' : mons s m = Some M -> m_phase M = PCreated -> m_parent M = None ->
    roots s (m_root M) = Some R -> pre_go R = true ->
    Dec (set_r s (m_root M) (with_apc R AGo)) m (skipped M) s' -> Step s (LSkip m) s'
| S_ActChild m M p : mons s m = Some M -> m_phase M = PCreated -> m_parent M = Some p ->
    Step s (LActivate m) (set_m s m (with_phase M PActivated))
| S_ActRoot m M R : mons s m = Some M -> m_phase M = PCreated -> m_parent M = None ->
    roots s (m_root M) = Some R -> r_apc R = AGo -> r_trig R = true ->
    Step s (LActivate m) (set_m s m (with_phase M PActivated))
| S_PushOld m M q : mons s m = Some M -> m_phase M = PActivated -> queues s (m_root M) = Some q ->
    Step s (LPush m) (set_m (set_q s (m_root M) (Some (q ++ [m]))) m (returned M PQueued))
| S_PushNew m M : mons s m = Some M -> m_phase M = PActivated -> queues s (m_root M) = None ->
    Step s (LPush m) (set_m (set_obs (set_q s (m_root M) (Some [m])) (m_root M) (obs s (m_root M) ++ [CbTq])) m (returned M PQueued))
| S_Cleanup r : queues s r = Some [] -> Step s (LCleanup r) (set_q s r None)
| S_Pop m M q : mons s m = Some M -> m_phase M = PQueued -> queues s (m_root M) = Some q -> mem_nat m q = true ->
    Step s (LPop m) (set_m (set_q s (m_root M) (Some (remove_nat m q))) m (with_phase M (PRun None None)))
| S_ActStart m M busy rule : mons s m = Some M -> m_phase M = PRun None busy -> child_back s busy = true ->
    Step s (LActStart m rule) (set_m s m (with_phase M (PRun (Some rule) None)))
| S_Child m c M rule busy R : mons s m = Some M -> mons s c = None -> m_phase M = PRun (Some rule) busy ->
    child_back s busy = true -> roots s (m_root M) = Some R ->
    Step s (LChild m c) (add_m (set_m (set_r s (m_root M) (with_unf R (r_unf R + 1) (r_crossed R))) m
                                      (with_phase M (PRun (Some rule) (Some c)))) c (M0 (m_root M) (Some m)))
| S_ActEnd m M rule busy failed : mons s m = Some M -> m_phase M = PRun (Some rule) busy -> child_back s busy = true ->
    Step s (LActEnd m rule failed) (set_m s m (with_stamp M (PRun None None) (rule, failed)))
| S_ProcEnd m M busy : mons s m = Some M -> m_phase M = PRun None busy -> child_back s busy = true ->
    Step s (LProcEnd m) (set_m s m (with_phase M PProcDone))
| S_ErrAttach m M R : mons s m = Some M -> m_phase M = PProcDone -> failed_of M <> [] -> roots s (m_root M) = Some R ->
    Step s (LErrAttach m) (set_m (set_r s (m_root M) (with_error R m)) m (attached M))
| S_FinishOk m M s' : mons s m = Some M -> m_phase M = PProcDone -> failed_of M = [] -> Dec s m M s' ->
    Step s (LFinish m) s'
| S_FinishErr m M s' : mons s m = Some M -> m_phase M = PErrSet -> Dec s m M s' -> Step s (LFinish m) s'
| S_Post m M R : mons s m = Some M -> m_phase M = PFinZero -> roots s (m_root M) = Some R ->
    Step s (LPost m) (next_cb (set_r s (m_root M) (with_post R)) m M (obs s (m_root M)))
| S_WaiterDone m M R rest : mons s m = Some M -> m_phase M = PPosting (CbWaiter :: rest) false ->
    roots s (m_root M) = Some R -> (0 < r_wg R)%Z ->
    Step s (LWaiterDone m) (set_m (set_r s (m_root M) (with_release R)) m (with_phase M (PPosting (CbWaiter :: rest) true)))
| S_WaiterPanic m M R rest : mons s m = Some M -> m_phase M = PPosting (CbWaiter :: rest) false ->
    roots s (m_root M) = Some R -> (r_wg R <= 0)%Z -> Step s (LWaiterDone m) (set_panic s 2)
| S_Handler m M R rest : mons s m = Some M -> m_phase M = PPosting (CbHandler :: rest) false ->
    roots s (m_root M) = Some R ->
    Step s (LHandler m) (set_m (set_r s (m_root M) (with_handler R)) m (with_phase M (PPosting (CbHandler :: rest) true)))
| S_CbRemove m M k rest : mons s m = Some M -> m_phase M = PPosting (k :: rest) true -> k <> CbTq ->
    Step s (LCbRemove m) (next_cb (set_obs s (m_root M) []) m M rest)
| S_TqCheck m M rest : mons s m = Some M -> m_phase M = PPosting (CbTq :: rest) false -> no_tq_left s (m_root M) ->
    Step s (LTqCheck m) (next_cb (set_obs s (m_root M) []) m M rest)
| S_TqPanic m M rest x q : mons s m = Some M -> m_phase M = PPosting (CbTq :: rest) false ->
    queues s (m_root M) = Some (x :: q) -> Step s (LTqCheck m) (set_panic s 1)
| S_AdderSkipped r R M : roots s r = Some R -> mons s r = Some M -> r_apc R = AGo -> m_inflight M = false ->
    m_skipped M = true ->
    Step s (LAdderNext r) (set_r (if r_wait R then set_obs s r [] else s) r (with_apc R ARet))
| S_AdderNext r R M : roots s r = Some R -> mons s r = Some M -> r_apc R = AGo -> m_inflight M = false ->
    m_skipped M = false ->
    Step s (LAdderNext r) (set_r s r (with_apc R (if r_wait R then AWaiting else ARet)))
| S_WaitReturn r R : roots s r = Some R -> r_apc R = AWaiting -> r_wg R = 0%Z ->
    Step s (LWaitReturn r) (set_r s r (with_apc R ARet)).

Lemma step_Step s l s' : step s l = Some s' -> s_panic s = None /\ Step s l s'.
Proof.
  intros H. assert (P : s_panic s = None) by (unfold step in H; destruct (s_panic s); [discriminate|reflexivity]).
  split; [exact P|].
  unfold step in H. rewrite P in H.
  destruct l;
  repeat match type of H with
         | dec _ _ _ = Some _ => apply dec_Dec in H
         | match ?x with _ => _ end = Some _ => let E := fresh "E" in destruct x eqn:E; try discriminate H
         | (if ?x then _ else _) = Some _ => let E := fresh "E" in destruct x eqn:E; try discriminate H
         end;
  try (injection H as H); subst;
  try (econstructor; eauto; fail).
  - destruct (queues s (m_root m0)) eqn:Q; econstructor; eauto.
  - match goal with A : (_ && _) = true |- _ => apply andb_prop in A as [A B]; apply Nat.eqb_eq in A; subst end.
    econstructor; eauto.
  - econstructor; eauto. match goal with A : failed_of _ = _ :: _ |- _ => rewrite A; discriminate end.
  - eapply S_WaiterPanic; eauto. lia.
  - eapply S_WaiterDone; eauto. lia.
  - eapply S_CbRemove; eauto. discriminate.
  - eapply S_CbRemove; eauto. discriminate.
  - eapply S_TqCheck; eauto. unfold no_tq_left. match goal with A : queues _ _ = _ |- _ => rewrite A end. exact I.
  - eapply S_TqCheck; eauto. unfold no_tq_left. match goal with A : queues _ _ = _ |- _ => rewrite A end. exact I.
  - eapply S_WaitReturn; eauto. lia.
Qed.
