(* Proofs/InterpControl2.v — C04 on the unified interpreter model, part 2: the condition loop
   (break / continue / innermost loop), if / elif / else, statement sequences, return and the
   function call (function.Run).  Same conventions as Proofs/InterpControl.v. *)
From Coq Require Import List String NArith ZArith Bool Arith Lia.
From Ecal Require Import Common.Bytes Common.Ast gen.Tokens Model.Interp Proofs.InterpProofs
  Proofs.InterpControl.
Import ListNotations.
Local Open Scope string_scope.
Local Open Scope list_scope.
Local Open Scope nat_scope.

Section C.
  Context {NO : NumOps}.

  (* ================================================================ vocabulary of the statements *)

  (* the condition loop  for guard { body }  with k rounds of fuel, in the loop's scope c:
     loopRuntime.Eval after the scope and the instance state were made *)
  Definition loop_rounds (ev : evalT) (k : nat) (path : list nat) (g body : node) (c is : nat) : M value :=
    bind (attempt (guard_loop ev k path g body c is)) (fun r =>
      match r with
      | inl _ => ret VNull
      | inr e => if is_rt e T_EOI then ret VNull else fail e
      end).

  (* the guards of the (guard, block) pairs of an if statement, evaluated in order, all false *)
  Inductive falls_through (ev : evalT) (path : list nat) (c is : nat) : nat -> list node -> state -> state -> Prop :=
  | ft_nil idx st : falls_through ev path c is idx [] st st
  | ft_cons idx g s r st st1 st2 :
      is_name g NodeGUARD = true ->
      ev (idx :: path) g c is st = (ROk (VBool false), st1) ->
      falls_through ev path c is (S (S idx)) r st1 st2 ->
      falls_through ev path c is idx (g :: s :: r) st st2.

  (* the statements of a sequence, evaluated in order, all ending with a value; last = the last value *)
  Inductive runs_through (ev : evalT) (path : list nat) (sc is : nat)
    : nat -> list node -> value -> state -> value -> state -> Prop :=
  | rt_nil idx v st : runs_through ev path sc is idx [] v st v st
  | rt_cons idx c r v0 st v1 st1 v2 st2 :
      ev (idx :: path) c sc is st = (ROk v1, st1) ->
      runs_through ev path sc is (S idx) r v1 st1 v2 st2 ->
      runs_through ev path sc is idx (c :: r) v0 st v2 st2.

  (* what the caller of a function sees when the body ended with r (function.Run):
     a value, the value of a return signal, or the error next to a null value *)
  Definition call_outcome (r : res value * state) : res callres * state :=
    match r with
    | (ROk v, s) => (ROk (v, None), s)
    | (RErr (EReturn v), s) => (ROk (v, None), s)
    | (RErr e, s) => (ROk (VNull, Some e), s)
    | (RPanic x, s) => (RPanic x, s)
    | (RFuel, s) => (RFuel, s)
    | (RUnmod w, s) => (RUnmod w, s)
    | (RInvalid w, s) => (RInvalid w, s)
    end.

  (* where the parameters and the body of a function declaration are: after the optional name *)
  Definition decl_offset (decl : node) : nat :=
    match n_children decl with
    | h :: _ => if is_name h NodeIDENTIFIER then 1 else 0
    | [] => 0
    end.

  (* ================================================================ signals *)
  Lemma is_rt_eoi_not_cont e : is_rt e T_EOI = true -> is_rt e T_CONT = false.
  Proof.
    destruct e as [|t a|t d x|v]; cbn [is_rt]; try discriminate.
    intros H. destruct (bytes_eqb_spec t T_EOI) as [->|]; [|discriminate]. reflexivity.
  Qed.
  Lemma is_rt_cont_not_eoi e : is_rt e T_CONT = true -> is_rt e T_EOI = false.
  Proof.
    destruct e as [|t a|t d x|v]; cbn [is_rt]; try discriminate.
    intros H. destruct (bytes_eqb_spec t T_CONT) as [->|]; [|discriminate]. reflexivity.
  Qed.

  Section WithEv.
    Variable ev : evalT.

    (* ================================================================ 5. the condition loop *)
    Lemma eval_loop_guard f p g body more sc is0 st c st0 is st1 :
      is_name g NodeGUARD = true ->
      new_child sc p st = (ROk c, st0) ->
      alloc_is st0 = (ROk is, st1) ->
      eval_loop ev f p (g :: body :: more) sc is0 st = loop_rounds ev f p g body c is st1.
    Proof.
      intros Hg Hc Hi. unfold eval_loop. rewrite (bind_ok_eq _ _ _ _ _ Hc).
      rewrite (bind_ok_eq _ _ _ _ _ Hi). rewrite Hg. reflexivity.
    Qed.

    Lemma loop_rounds_0 p g body c is st : loop_rounds ev 0 p g body c is st = (RFuel, st).
    Proof. reflexivity. Qed.

    Lemma guard_loop_true k p g body c is st st1 :
      ev (0 :: p) g c is st = (ROk (VBool true), st1) ->
      guard_loop ev (S k) p g body c is st =
      bind (attempt (ev (1 :: p) body c is)) (fun r =>
        match r with
        | inl _ => guard_loop ev k p g body c is
        | inr e => if is_rt e T_CONT then guard_loop ev k p g body c is else fail e
        end) st1.
    Proof. intros Hg. cbn [guard_loop]. rewrite (bind_ok_eq _ _ _ _ _ Hg). reflexivity. Qed.

    (* the guard is false: the loop ends *)
    Lemma loop_rounds_guard_false k p g body c is st st1 :
      ev (0 :: p) g c is st = (ROk (VBool false), st1) ->
      loop_rounds ev (S k) p g body c is st = (ROk VNull, st1).
    Proof.
      intros Hg. unfold loop_rounds. cbn [guard_loop]. unfold bind at 1. unfold attempt.
      rewrite (bind_ok_eq _ _ _ _ _ Hg). reflexivity.
    Qed.

    (* a round that ends normally: the next round *)
    Lemma loop_rounds_body_ok k p g body c is st st1 v st2 :
      ev (0 :: p) g c is st = (ROk (VBool true), st1) ->
      ev (1 :: p) body c is st1 = (ROk v, st2) ->
      loop_rounds ev (S k) p g body c is st = loop_rounds ev k p g body c is st2.
    Proof.
      intros Hg Hb. unfold loop_rounds. unfold bind at 1. unfold attempt at 1.
      rewrite (guard_loop_true _ _ _ _ _ _ _ _ Hg).
      rewrite (bind_ok_eq _ _ _ _ _ (attempt_ok_eq _ _ _ _ Hb)). reflexivity.
    Qed.

    (* continue: the next round (the next thing evaluated is the guard) *)
    Lemma loop_rounds_continue k p g body c is st st1 e st2 :
      ev (0 :: p) g c is st = (ROk (VBool true), st1) ->
      ev (1 :: p) body c is st1 = (RErr e, st2) ->
      is_rt e T_CONT = true ->
      loop_rounds ev (S k) p g body c is st = loop_rounds ev k p g body c is st2.
    Proof.
      intros Hg Hb He. unfold loop_rounds. unfold bind at 1. unfold attempt at 1.
      rewrite (guard_loop_true _ _ _ _ _ _ _ _ Hg).
      rewrite (bind_ok_eq _ _ _ _ _ (attempt_err_eq _ _ _ _ Hb)). rewrite He. reflexivity.
    Qed.

    (* break: the loop ends normally in the body's end state *)
    Lemma loop_rounds_break k p g body c is st st1 e st2 :
      ev (0 :: p) g c is st = (ROk (VBool true), st1) ->
      ev (1 :: p) body c is st1 = (RErr e, st2) ->
      is_rt e T_EOI = true ->
      loop_rounds ev (S k) p g body c is st = (ROk VNull, st2).
    Proof.
      intros Hg Hb He. unfold loop_rounds. unfold bind at 1. unfold attempt at 1.
      rewrite (guard_loop_true _ _ _ _ _ _ _ _ Hg).
      rewrite (bind_ok_eq _ _ _ _ _ (attempt_err_eq _ _ _ _ Hb)).
      rewrite (is_rt_eoi_not_cont _ He). cbn [fail lift]. rewrite He. reflexivity.
    Qed.

    (* any other error (a failure, or the return signal) leaves the loop unchanged *)
    Lemma loop_rounds_error k p g body c is st st1 e st2 :
      ev (0 :: p) g c is st = (ROk (VBool true), st1) ->
      ev (1 :: p) body c is st1 = (RErr e, st2) ->
      is_rt e T_CONT = false -> is_rt e T_EOI = false ->
      loop_rounds ev (S k) p g body c is st = (RErr e, st2).
    Proof.
      intros Hg Hb Hc He. unfold loop_rounds. unfold bind at 1. unfold attempt at 1.
      rewrite (guard_loop_true _ _ _ _ _ _ _ _ Hg).
      rewrite (bind_ok_eq _ _ _ _ _ (attempt_err_eq _ _ _ _ Hb)).
      rewrite Hc. cbn [fail lift]. rewrite He. reflexivity.
    Qed.

    (* an error of the guard leaves the loop *)
    Lemma loop_rounds_guard_error k p g body c is st e st1 :
      ev (0 :: p) g c is st = (RErr e, st1) ->
      is_rt e T_EOI = false ->
      loop_rounds ev (S k) p g body c is st = (RErr e, st1).
    Proof.
      intros Hg He. unfold loop_rounds. cbn [guard_loop]. unfold bind at 1. unfold attempt.
      rewrite (bind_err_eq _ _ _ _ _ Hg). cbn [fail lift]. rewrite He. reflexivity.
    Qed.

    (* innermost loop: the break signal never leaves a condition loop; a continue signal that
       leaves it was raised by a GUARD evaluation, never by the body *)
    Lemma guard_loop_cont_from_guard p g body c is e :
      is_rt e T_CONT = true ->
      forall k st st', guard_loop ev k p g body c is st = (RErr e, st') ->
                       exists st1, ev (0 :: p) g c is st1 = (RErr e, st').
    Proof.
      intros He. induction k as [|k IH]; intros st st' H; [discriminate|].
      cbn [guard_loop] in H. apply bind_err_inv in H. destruct H as [H|(gv & st1 & _ & H)]; [eauto|].
      apply bind_err_inv in H. destruct H as [H|(b & st2 & Hb & H)].
      { destruct gv; discriminate. }
      destruct b; [|discriminate].
      apply bind_ne_inv in H; [|apply ne_attempt]. destruct H as (r & st3 & _ & H).
      destruct r as [v|e0]; [eapply IH; exact H|].
      destruct (is_rt e0 T_CONT) eqn:E0; [eapply IH; exact H|].
      injection H as <- _. congruence.
    Qed.

    Lemma loop_rounds_innermost k p g body c is st e st' :
      loop_rounds ev k p g body c is st = (RErr e, st') ->
      is_rt e T_EOI = false /\
      (is_rt e T_CONT = true -> exists st1, ev (0 :: p) g c is st1 = (RErr e, st')).
    Proof.
      intros H. unfold loop_rounds in H.
      unfold bind, attempt in H.
      destruct (guard_loop ev k p g body c is st) as [r st1] eqn:E.
      destruct r as [u|e0|s| |w|w]; try discriminate.
      destruct (is_rt e0 T_EOI) eqn:E0; [discriminate|]. injection H as <- <-.
      split; [exact E0|]. intros Hc. eapply guard_loop_cont_from_guard; eassumption.
    Qed.

    (* ================================================================ 6. if *)
    Lemma eval_if_run p cs sc is st c st0 :
      new_child sc p st = (ROk c, st0) ->
      eval_if ev p cs sc is st = if_pairs ev p 0 cs c is st0.
    Proof. intros Hc. unfold eval_if. rewrite (bind_ok_eq _ _ _ _ _ Hc). reflexivity. Qed.

    Lemma if_pairs_true p idx g s r c is st st1 :
      is_name g NodeGUARD = true ->
      ev (idx :: p) g c is st = (ROk (VBool true), st1) ->
      if_pairs ev p idx (g :: s :: r) c is st = ev (S idx :: p) s c is st1.
    Proof. intros Hn Hg. cbn [if_pairs]. rewrite Hn. rewrite (bind_ok_eq _ _ _ _ _ Hg). reflexivity. Qed.
    Lemma if_pairs_false p idx g s r c is st st1 :
      is_name g NodeGUARD = true ->
      ev (idx :: p) g c is st = (ROk (VBool false), st1) ->
      if_pairs ev p idx (g :: s :: r) c is st = if_pairs ev p (S (S idx)) r c is st1.
    Proof. intros Hn Hg. cbn [if_pairs]. rewrite Hn. rewrite (bind_ok_eq _ _ _ _ _ Hg). reflexivity. Qed.
    Lemma if_pairs_error p idx g s r c is st e st1 :
      is_name g NodeGUARD = true ->
      ev (idx :: p) g c is st = (RErr e, st1) ->
      if_pairs ev p idx (g :: s :: r) c is st = (RErr e, st1).
    Proof. intros Hn Hg. cbn [if_pairs]. rewrite Hn. rewrite (bind_err_eq _ _ _ _ _ Hg). reflexivity. Qed.

    Lemma if_pairs_fall p c is rest idx pre st st1 :
      falls_through ev p c is idx pre st st1 ->
      if_pairs ev p idx (pre ++ rest) c is st = if_pairs ev p (idx + length pre) rest c is st1.
    Proof.
      intros H. induction H as [idx st|idx g s r st st1 st2 Hn Hg _ IH].
      - cbn [app length]. rewrite Nat.add_0_r. reflexivity.
      - cbn [app length]. rewrite (if_pairs_false _ _ _ _ _ _ _ _ _ Hn Hg). rewrite IH.
        replace (S (S idx) + length r) with (idx + S (S (length r))) by lia. reflexivity.
    Qed.

    Lemma eval_if_first_true p pre g s r sc is st c st0 st1 st2 :
      new_child sc p st = (ROk c, st0) ->
      falls_through ev p c is 0 pre st0 st1 ->
      is_name g NodeGUARD = true ->
      ev (length pre :: p) g c is st1 = (ROk (VBool true), st2) ->
      eval_if ev p (pre ++ g :: s :: r) sc is st = ev (S (length pre) :: p) s c is st2.
    Proof.
      intros Hc Hf Hn Hg. rewrite (eval_if_run _ _ _ _ _ _ _ Hc). rewrite (if_pairs_fall _ _ _ _ _ _ _ _ Hf).
      cbn [Nat.add]. apply if_pairs_true; assumption.
    Qed.
    Lemma eval_if_failing_guard p pre g s r sc is st c st0 st1 e st2 :
      new_child sc p st = (ROk c, st0) ->
      falls_through ev p c is 0 pre st0 st1 ->
      is_name g NodeGUARD = true ->
      ev (length pre :: p) g c is st1 = (RErr e, st2) ->
      eval_if ev p (pre ++ g :: s :: r) sc is st = (RErr e, st2).
    Proof.
      intros Hc Hf Hn Hg. rewrite (eval_if_run _ _ _ _ _ _ _ Hc). rewrite (if_pairs_fall _ _ _ _ _ _ _ _ Hf).
      cbn [Nat.add]. apply if_pairs_error; assumption.
    Qed.
    Lemma eval_if_no_true_guard p cs sc is st c st0 st1 :
      new_child sc p st = (ROk c, st0) ->
      falls_through ev p c is 0 cs st0 st1 ->
      eval_if ev p cs sc is st = (ROk VNull, st1).
    Proof.
      intros Hc Hf. rewrite (eval_if_run _ _ _ _ _ _ _ Hc). rewrite <- (app_nil_r cs).
      rewrite (if_pairs_fall _ _ _ _ _ _ _ _ Hf). reflexivity.
    Qed.

    (* ================================================================ statement sequences *)
    Lemma eval_statements_through p sc is rest idx pre v0 st v1 st1 :
      runs_through ev p sc is idx pre v0 st v1 st1 ->
      eval_statements ev p idx (pre ++ rest) sc is v0 st =
      eval_statements ev p (idx + length pre) rest sc is v1 st1.
    Proof.
      intros H. induction H as [idx v st|idx c r v0 st v1 st1 v2 st2 Hc _ IH].
      - cbn [app length]. rewrite Nat.add_0_r. reflexivity.
      - cbn [app length eval_statements]. rewrite (bind_ok_eq _ _ _ _ _ Hc). rewrite IH.
        replace (S idx + length r) with (idx + S (length r)) by lia. reflexivity.
    Qed.
    (* the first statement that ends with an error (or signal) ends the sequence with it *)
    Lemma eval_statements_stop p sc is pre c post v0 st v1 st1 e st2 :
      runs_through ev p sc is 0 pre v0 st v1 st1 ->
      ev (length pre :: p) c sc is st1 = (RErr e, st2) ->
      eval_statements ev p 0 (pre ++ c :: post) sc is v0 st = (RErr e, st2).
    Proof.
      intros H Hc. rewrite (eval_statements_through _ _ _ _ _ _ _ _ _ _ H). cbn [Nat.add eval_statements].
      rewrite (bind_err_eq _ _ _ _ _ Hc). reflexivity.
    Qed.
    Lemma eval_statements_all p sc is cs v0 st v1 st1 :
      runs_through ev p sc is 0 cs v0 st v1 st1 ->
      eval_statements ev p 0 cs sc is v0 st = (ROk v1, st1).
    Proof.
      intros H. rewrite <- (app_nil_r cs). rewrite (eval_statements_through _ _ _ _ _ _ _ _ _ _ H).
      reflexivity.
    Qed.

    (* ================================================================ 7. return, function.Run *)
    Lemma eval_return_value p c r sc is st :
      eval_return ev p (c :: r) sc is st =
      match ev (0 :: p) c sc is st with
      | (ROk v, st1) => (RErr (EReturn v), st1)
      | x => x
      end.
    Proof.
      cbn [eval_return]. unfold bind. destruct (ev (0 :: p) c sc is st) as [x st1].
      destruct x; reflexivity.
    Qed.

    Lemma run_closure_body f args is st params body fvs st1 st2 st3 is' st4 :
      let off := decl_offset (cl_decl f) in
      nth_error (n_children (cl_decl f)) off = Some params ->
      nth_error (n_children (cl_decl f)) (S off) = Some body ->
      new_root st = (ROk fvs, st1) ->
      bind_params ev (off :: cl_path f) 0 (n_children params) args fvs (cl_scope f) is st1 = (ROk tt, st2) ->
      set_parent fvs (cl_scope f) st2 = (ROk tt, st3) ->
      alloc_is st3 = (ROk is', st4) ->
      run_closure ev f args is st = call_outcome (ev (S off :: cl_path f) body fvs is' st4).
    Proof.
      intros off Hp Hb Hr Hbp Hsp Hi. unfold run_closure. cbv zeta.
      change (match n_children (cl_decl f) with
              | [] => 0
              | h :: _ => if is_name h NodeIDENTIFIER then 1 else 0
              end) with off.
      rewrite Hp, Hb. rewrite (bind_ok_eq _ _ _ _ _ Hr).
      rewrite (bind_ok_eq _ _ _ _ _ (attempt_ok_eq _ _ _ _ Hbp)).
      rewrite (bind_ok_eq _ _ _ _ _ Hsp). rewrite (bind_ok_eq _ _ _ _ _ Hi).
      unfold bind, attempt, call_outcome.
      destruct (ev (S off :: cl_path f) body fvs is' st4) as [x st5].
      destruct x as [v|e|s| |w|w]; try reflexivity. destruct e; reflexivity.
    Qed.

    Lemma exec_function_closure id self args is st f r st' :
      get_fun id st = (ROk f, st) ->
      run_closure ev f args is st = (ROk r, st') ->
      exec_function ev (FClosure id) self args is st =
      (ROk (fst r, match snd r with Some EPlain => e_runtime | x => x end), st').
    Proof.
      intros Hf Hr. cbn [exec_function]. rewrite (bind_ok_eq _ _ _ _ _ Hf).
      rewrite (bind_ok_eq _ _ _ _ _ Hr). reflexivity.
    Qed.

    (* return leaves the function with its value *)
    Lemma exec_function_return id self f args is st params body fvs st1 st2 st3 is' st4 v st5 :
      let off := decl_offset (cl_decl f) in
      get_fun id st = (ROk f, st) ->
      nth_error (n_children (cl_decl f)) off = Some params ->
      nth_error (n_children (cl_decl f)) (S off) = Some body ->
      new_root st = (ROk fvs, st1) ->
      bind_params ev (off :: cl_path f) 0 (n_children params) args fvs (cl_scope f) is st1 = (ROk tt, st2) ->
      set_parent fvs (cl_scope f) st2 = (ROk tt, st3) ->
      alloc_is st3 = (ROk is', st4) ->
      ev (S off :: cl_path f) body fvs is' st4 = (RErr (EReturn v), st5) ->
      exec_function ev (FClosure id) self args is st = (ROk (v, None), st5).
    Proof.
      intros off Hf Hp Hb Hr Hbp Hsp Hi He.
      pose proof (run_closure_body f args is st params body fvs st1 st2 st3 is' st4 Hp Hb Hr Hbp Hsp Hi) as H.
      fold off in H. rewrite He in H. cbn [call_outcome] in H.
      rewrite (exec_function_closure _ _ _ _ _ _ _ _ Hf H). reflexivity.
    Qed.
  End WithEv.
End C.
