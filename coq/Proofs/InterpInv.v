(* Proofs/InterpInv.v — the state invariant of the interpreter model and the proof rules.

   [st_ok st]: every slice stored anywhere fits its array, every array / map / function
   reference stored anywhere is allocated, the parent of a scope has a SMALLER index than the
   scope (so scope chains are acyclic and end within the arena), every closure holds the tree of
   a validated function declaration ([tok]) and an allocated declaration scope.
   [st_le st st']: st' extends st (arenas only grow, arrays never shrink, closures stay).
   [T st m Q]: started in the ok state st, m ends in an ok extension st' of st, never with
   [RInvalid]; a value satisfies Q in st', an error carries ok values.
   This file: the rules, the arena primitives, slices, scope/varsscope.go. *)
From Coq Require Import List String NArith ZArith Bool Arith Lia.
From Ecal Require Import Common.Bytes Common.Ast gen.Tokens Spec.ParseSpec Model.Interp Proofs.InterpShape.
Import ListNotations.
Local Open Scope string_scope.
Local Open Scope list_scope.
Local Open Scope nat_scope.

(* ---------------------------------------------------------------- lists *)
Lemma length_list_upd {A} (l : list A) i x : length (list_upd l i x) = length l.
Proof. revert i. induction l as [|y r IH]; intros [|i]; cbn; auto. Qed.
Lemma nth_list_upd {A} (l : list A) i x j y :
  nth_error (list_upd l i x) j = Some y -> nth_error l j = Some y \/ (y = x /\ j = i).
Proof.
  revert i j. induction l as [|z r IH]; intros [|i] [|j]; cbn; intros H; auto; try discriminate.
  - injection H as <-. auto.
  - destruct (IH _ _ H) as [H1|[H1 H2]]; auto.
Qed.
Lemma nth_list_upd_same {A} (l : list A) i x : i < length l -> nth_error (list_upd l i x) i = Some x.
Proof. revert i. induction l as [|z r IH]; intros [|i]; cbn; intros H; auto; try lia. apply IH. lia. Qed.
Lemma nth_list_upd_other {A} (l : list A) i x j : j <> i -> nth_error (list_upd l i x) j = nth_error l j.
Proof. revert i j. induction l as [|z r IH]; intros [|i] [|j]; cbn; intros H; auto; try lia. Qed.
Lemma nth_snoc {A} (l : list A) x j y :
  nth_error (l ++ [x]) j = Some y -> nth_error l j = Some y \/ (y = x /\ j = length l).
Proof.
  intros H. destruct (Nat.lt_ge_cases j (length l)) as [L|L].
  - rewrite nth_error_app1 in H by exact L. auto.
  - rewrite nth_error_app2 in H by exact L. destruct (j - length l) as [|k] eqn:E; cbn in H.
    + injection H as <-. right. split; [auto|lia].
    + destruct k; discriminate.
Qed.
Lemma nth_snoc_old {A} (l : list A) x j y : nth_error l j = Some y -> nth_error (l ++ [x]) j = Some y.
Proof. intros H. rewrite nth_error_app1; [exact H|]. apply nth_error_Some. congruence. Qed.
Lemma nth_snoc_new {A} (l : list A) x : nth_error (l ++ [x]) (length l) = Some x.
Proof. rewrite nth_error_app2 by lia. rewrite Nat.sub_diag. reflexivity. Qed.
Lemma Forall_list_upd {A} (P : A -> Prop) l i x : Forall P l -> P x -> Forall P (list_upd l i x).
Proof.
  intros H Hx. revert i. induction H as [|y r Hy Hr IH]; intros [|i]; cbn; auto.
Qed.
Lemma Forall_firstn {A} (P : A -> Prop) n l : Forall P l -> Forall P (firstn n l).
Proof. intros H. revert n. induction H; intros [|n]; cbn; auto. Qed.
Lemma Forall_skipn {A} (P : A -> Prop) n l : Forall P l -> Forall P (skipn n l).
Proof. intros H. revert n. induction H; intros [|n]; cbn; auto. Qed.
Lemma Forall_repeat {A} (P : A -> Prop) x n : P x -> Forall P (repeat x n).
Proof. intros H. induction n; cbn; auto. Qed.
Lemma Forall_nth {A} (P : A -> Prop) l i x : Forall P l -> nth_error l i = Some x -> P x.
Proof. intros H E. rewrite Forall_forall in H. apply H. eapply nth_error_In; eauto. Qed.

Section I.
  Context {NO : NumOps}.

  (* ---------------------------------------------------------------- the invariant *)
  Definition arr_ok (st : state) (a len : nat) : Prop :=
    exists cells, nth_error (st_arrs st) a = Some cells /\ len <= length cells.
  Definition val_ok (st : state) (v : value) : Prop :=
    match v with
    | VList a len => arr_ok st a len
    | VMap id => id < length (st_maps st)
    | VFun id => id < length (st_funs st)
    | _ => True
    end.
  Definition err_ok (st : state) (e : error) : Prop :=
    match e with
    | EPlain => True
    | ERt _ acc => val_ok st acc
    | ERaised _ _ d => val_ok st d
    | EReturn v => val_ok st v
    end.
  Definition oerr_ok (st : state) (o : option error) : Prop :=
    match o with Some e => err_ok st e | None => True end.
  Definition cr_ok (st : state) (cr : callres) : Prop := val_ok st (fst cr) /\ oerr_ok st (snd cr).
  Definition sc_ok (st : state) (s : nat) : Prop := s < length (st_scopes st).
  Definition is_ok (st : state) (i : nat) : Prop := i < length (st_is st).
  Definition vals_ok (st : state) (l : list value) : Prop := Forall (val_ok st) l.
  Definition vars_ok (st : state) (l : list (bytes * value)) : Prop := Forall (fun kv => val_ok st (snd kv)) l.
  Definition map_ok (st : state) (m : list (value * value)) : Prop :=
    Forall (fun kv => val_ok st (fst kv) /\ val_ok st (snd kv)) m.
  Definition decl_ok (n : node) : Prop := tok n = true /\ n_name n = NodeFUNC.
  Definition clo_ok (st : state) (c : closure) : Prop := sc_ok st (cl_scope c) /\ decl_ok (cl_decl c).
  Definition scope_inv (st : state) (i : nat) (sc : scope) : Prop :=
    match sc_parent sc with Some p => p < i | None => True end /\ vars_ok st (sc_vars sc).

  Definition st_le (st st' : state) : Prop :=
    length (st_scopes st) <= length (st_scopes st') /\
    (forall a len, arr_ok st a len -> arr_ok st' a len) /\
    length (st_maps st) <= length (st_maps st') /\
    length (st_funs st) <= length (st_funs st') /\
    (forall id c, nth_error (st_funs st) id = Some c -> nth_error (st_funs st') id = Some c) /\
    length (st_is st) <= length (st_is st').

  Definition st_ok (st : state) : Prop :=
    (forall i sc, nth_error (st_scopes st) i = Some sc -> scope_inv st i sc) /\
    (forall a cells, nth_error (st_arrs st) a = Some cells -> vals_ok st cells) /\
    (forall id m, nth_error (st_maps st) id = Some m -> map_ok st m) /\
    (forall id c, nth_error (st_funs st) id = Some c -> clo_ok st c).

  Lemma st_le_refl st : st_le st st.
  Proof. unfold st_le. repeat split; auto. Qed.
  Lemma st_le_trans a b c : st_le a b -> st_le b c -> st_le a c.
  Proof.
    unfold st_le. intros (A1 & A2 & A3 & A4 & A5 & A6) (B1 & B2 & B3 & B4 & B5 & B6).
    repeat split; try lia; auto.
  Qed.

  Lemma arr_ok_le st st' : st_le st st' -> forall a len, arr_ok st a len -> arr_ok st' a len.
  Proof. intros L. apply L. Qed.
  Lemma val_ok_le st st' : st_le st st' -> forall v, val_ok st v -> val_ok st' v.
  Proof.
    intros (A1 & A2 & A3 & A4 & A5 & A6) v. destruct v; cbn; auto; lia.
  Qed.
  Lemma err_ok_le st st' : st_le st st' -> forall e, err_ok st e -> err_ok st' e.
  Proof. intros L e. destruct e; cbn; auto; apply val_ok_le; exact L. Qed.
  Lemma oerr_ok_le st st' : st_le st st' -> forall e, oerr_ok st e -> oerr_ok st' e.
  Proof. intros L e. destruct e; cbn; auto. apply err_ok_le; exact L. Qed.
  Lemma cr_ok_le st st' : st_le st st' -> forall c, cr_ok st c -> cr_ok st' c.
  Proof. intros L c [H1 H2]. split; [eapply val_ok_le | eapply oerr_ok_le]; eauto. Qed.
  Lemma sc_ok_le st st' : st_le st st' -> forall s, sc_ok st s -> sc_ok st' s.
  Proof. intros (A1 & _) s. unfold sc_ok. lia. Qed.
  Lemma is_ok_le st st' : st_le st st' -> forall s, is_ok st s -> is_ok st' s.
  Proof. intros (A1 & A2 & A3 & A4 & A5 & A6) s. unfold is_ok. lia. Qed.
  Lemma vals_ok_le st st' : st_le st st' -> forall l, vals_ok st l -> vals_ok st' l.
  Proof. intros L l H. eapply Forall_impl; [|exact H]. intros v. apply val_ok_le; exact L. Qed.
  Lemma vars_ok_le st st' : st_le st st' -> forall l, vars_ok st l -> vars_ok st' l.
  Proof. intros L l H. eapply Forall_impl; [|exact H]. intros v. apply val_ok_le; exact L. Qed.
  Lemma map_ok_le st st' : st_le st st' -> forall l, map_ok st l -> map_ok st' l.
  Proof.
    intros L l H. eapply Forall_impl; [|exact H]. intros v [H1 H2].
    split; eapply val_ok_le; eauto.
  Qed.
  Lemma clo_ok_le st st' : st_le st st' -> forall c, clo_ok st c -> clo_ok st' c.
  Proof. intros L c [H1 H2]. split; [eapply sc_ok_le; eauto | exact H2]. Qed.
  Lemma scope_inv_le st st' : st_le st st' -> forall i sc, scope_inv st i sc -> scope_inv st' i sc.
  Proof. intros L i sc [H1 H2]. split; [exact H1 | eapply vars_ok_le; eauto]. Qed.

  (* a state built from an ok state: every entry is an old entry or ok in the new state *)
  Lemma st_ok_step st st' :
    st_ok st -> st_le st st' ->
    (forall i sc, nth_error (st_scopes st') i = Some sc ->
                  nth_error (st_scopes st) i = Some sc \/ scope_inv st' i sc) ->
    (forall a cells, nth_error (st_arrs st') a = Some cells ->
                     nth_error (st_arrs st) a = Some cells \/ vals_ok st' cells) ->
    (forall id m, nth_error (st_maps st') id = Some m ->
                  nth_error (st_maps st) id = Some m \/ map_ok st' m) ->
    (forall id c, nth_error (st_funs st') id = Some c ->
                  nth_error (st_funs st) id = Some c \/ clo_ok st' c) ->
    st_ok st'.
  Proof.
    intros (O1 & O2 & O3 & O4) L H1 H2 H3 H4. split; [|split; [|split]].
    - intros i sc E. destruct (H1 _ _ E) as [E'|E']; [|exact E'].
      apply (scope_inv_le _ _ L), (O1 _ _ E').
    - intros a cells E. destruct (H2 _ _ E) as [E'|E']; [|exact E'].
      apply (vals_ok_le _ _ L), (O2 _ _ E').
    - intros a cells E. destruct (H3 _ _ E) as [E'|E']; [|exact E'].
      apply (map_ok_le _ _ L), (O3 _ _ E').
    - intros a cells E. destruct (H4 _ _ E) as [E'|E']; [|exact E'].
      apply (clo_ok_le _ _ L), (O4 _ _ E').
  Qed.

  (* the usual postconditions *)
  Definition Qval : value -> state -> Prop := fun v st' => val_ok st' v.
  Definition Qcr : callres -> state -> Prop := fun cr st' => cr_ok st' cr.
  Definition Qtrue {A} : A -> state -> Prop := fun _ _ => True.
  Definition Qpair : value * value -> state -> Prop :=
    fun pr st' => val_ok st' (fst pr) /\ val_ok st' (snd pr).

  (* ---------------------------------------------------------------- the triple *)
  Definition rpostI {A} (r : res A) (Q : A -> state -> Prop) (st' : state) : Prop :=
    match r with
    | ROk a => Q a st'
    | RErr e => err_ok st' e
    | RInvalid _ => False
    | _ => True
    end.
  Definition T {A} (st : state) (m : M A) (Q : A -> state -> Prop) : Prop :=
    st_ok st -> st_ok (snd (m st)) /\ st_le st (snd (m st)) /\ rpostI (fst (m st)) Q (snd (m st)).

  Lemma T_ret {A} st (a : A) (Q : A -> state -> Prop) : Q a st -> T st (ret a) Q.
  Proof. intros H Hok. cbn. auto using st_le_refl. Qed.
  Lemma T_lift {A} st (r : res A) (Q : A -> state -> Prop) : rpostI r Q st -> T st (lift r) Q.
  Proof. intros H Hok. cbn. auto using st_le_refl. Qed.
  Lemma T_fail {A} st e (Q : A -> state -> Prop) : err_ok st e -> T st (fail e) Q.
  Proof. intros H. apply T_lift. exact H. Qed.
  Lemma T_unmod {A} st w (Q : A -> state -> Prop) : T st (unmod w) Q.
  Proof. apply T_lift. exact I. Qed.
  Lemma T_fuel {A} st (Q : A -> state -> Prop) : T st (lift RFuel) Q.
  Proof. apply T_lift. exact I. Qed.

  Lemma T_bind {A B} st (m : M A) (f : A -> M B) Q R :
    T st m Q ->
    (forall a st', st_ok st' -> st_le st st' -> Q a st' -> T st' (f a) R) ->
    T st (bind m f) R.
  Proof.
    intros Hm Hf Hok. unfold bind. specialize (Hm Hok). destruct (m st) as [r st1]. cbn in Hm.
    destruct Hm as (Hok1 & Hle1 & Hr). destruct r; cbn in *; auto; try contradiction.
    specialize (Hf a st1 Hok1 Hle1 Hr Hok1). destruct (f a st1) as [r2 st2]. cbn in *.
    destruct Hf as (Hok2 & Hle2 & Hr2). split; [auto|]. split; [eapply st_le_trans; eauto|auto].
  Qed.
  Lemma T_weaken {A} st (m : M A) (Q R : A -> state -> Prop) :
    T st m Q -> (forall a st', st_ok st' -> st_le st st' -> Q a st' -> R a st') -> T st m R.
  Proof.
    intros Hm HQ Hok. specialize (Hm Hok). destruct (m st) as [r st1]. cbn in *.
    destruct Hm as (Hok1 & Hle1 & Hr). split; [auto|split; [auto|]]. destruct r; cbn in *; auto.
  Qed.
  Lemma T_attempt {A} st (m : M A) (Q : A -> state -> Prop) :
    T st m Q ->
    T st (attempt m) (fun r st' => match r with inl a => Q a st' | inr e => err_ok st' e end).
  Proof.
    intros Hm Hok. specialize (Hm Hok). unfold attempt. destruct (m st) as [r st1]. cbn in *.
    destruct Hm as (Hok1 & Hle1 & Hr). destruct r; cbn in *; auto.
  Qed.
  (* a pure step keeps the state *)
  Lemma Tb_lift {A B} st (r : res A) (f : A -> M B) R :
    match r with
    | ROk a => T st (f a) R
    | RErr e => err_ok st e
    | RInvalid _ => False
    | _ => True
    end -> T st (bind (lift r) f) R.
  Proof.
    intros H Hok. unfold bind, lift. destruct r; cbn; auto using st_le_refl; try contradiction.
  Qed.
  Lemma Tb_ret {A B} st (a : A) (f : A -> M B) R : T st (f a) R -> T st (bind (ret a) f) R.
  Proof. intros H. exact H. Qed.
  Lemma Tb_get_st {B} st (f : state -> M B) R : T st (f st) R -> T st (bind get_st f) R.
  Proof. intros H. exact H. Qed.
  Lemma T_ok {A} st (m : M A) Q : (st_ok st -> T st m Q) -> T st m Q.
  Proof. intros H Hok. exact (H Hok Hok). Qed.
  (* what T means for a run from a given state *)
  Lemma T_run {A} st (m : M A) Q : T st m Q -> st_ok st -> forall w, fst (m st) <> RInvalid w.
  Proof.
    intros H Hok w E. destruct (H Hok) as (_ & _ & Hr). rewrite E in Hr. exact Hr.
  Qed.

  (* ---------------------------------------------------------------- arenas *)
  Ltac unf := unfold T, bind, get_arr, set_arr, alloc_arr, get_map, set_map, alloc_map, get_fun, alloc_fun,
              get_scope, set_scope, alloc_scope, get_is, set_is, alloc_is, get_st, put_st, of_opt, ret,
              invalid, lift.

  Lemma Tb_get_arr {B} st a len (f : list value -> M B) R :
    arr_ok st a len ->
    (forall cells, nth_error (st_arrs st) a = Some cells -> len <= length cells -> vals_ok st cells ->
                   T st (f cells) R) ->
    T st (bind (get_arr a) f) R.
  Proof.
    intros (cells & E & L) H Hok. unf. cbn. rewrite E. cbn.
    apply H; auto. destruct Hok as (_ & O2 & _). eauto.
  Qed.
  Lemma Tb_get_map {B} st id (f : list (value * value) -> M B) R :
    id < length (st_maps st) ->
    (forall m, nth_error (st_maps st) id = Some m -> map_ok st m -> T st (f m) R) ->
    T st (bind (get_map id) f) R.
  Proof.
    intros L H Hok. unf. cbn. destruct (nth_error (st_maps st) id) as [m|] eqn:E.
    - cbn. apply H; auto. destruct Hok as (_ & _ & O3 & _). eauto.
    - apply nth_error_None in E. lia.
  Qed.
  Lemma Tb_get_fun {B} st id (f : closure -> M B) R :
    id < length (st_funs st) ->
    (forall c, nth_error (st_funs st) id = Some c -> clo_ok st c -> T st (f c) R) ->
    T st (bind (get_fun id) f) R.
  Proof.
    intros L H Hok. unf. cbn. destruct (nth_error (st_funs st) id) as [m|] eqn:E.
    - cbn. apply H; auto. destruct Hok as (_ & _ & _ & O4). eauto.
    - apply nth_error_None in E. lia.
  Qed.
  Lemma Tb_get_scope {B} st s (f : scope -> M B) R :
    sc_ok st s ->
    (forall sc, nth_error (st_scopes st) s = Some sc -> scope_inv st s sc -> T st (f sc) R) ->
    T st (bind (get_scope s) f) R.
  Proof.
    intros L H Hok. unf. cbn. destruct (nth_error (st_scopes st) s) as [m|] eqn:E.
    - cbn. apply H; auto. destruct Hok as (O1 & _). eauto.
    - apply nth_error_None in E. unfold sc_ok in L. lia.
  Qed.
  Lemma Tb_get_is {B} st i (f : list (list nat * rstate) -> M B) R :
    is_ok st i -> (forall m, T st (f m) R) -> T st (bind (get_is i) f) R.
  Proof.
    intros L H Hok. unf. cbn. destruct (nth_error (st_is st) i) as [m|] eqn:E.
    - cbn. apply H; auto.
    - apply nth_error_None in E. unfold is_ok in L. lia.
  Qed.

  Lemma T_set_arr st a old new :
    nth_error (st_arrs st) a = Some old -> length old <= length new -> vals_ok st new ->
    T st (set_arr a new) (fun _ st' => nth_error (st_arrs st') a = Some new).
  Proof.
    intros E L Hn Hok. unf. cbn.
    assert (La : a < length (st_arrs st)) by (apply nth_error_Some; congruence).
    assert (Hle : st_le st (mkSt (st_scopes st) (list_upd (st_arrs st) a new) (st_maps st) (st_funs st) (st_is st))).
    { unfold st_le. cbn. repeat split; auto.
      intros a' len' (c' & E' & L'). unfold arr_ok. cbn.
      destruct (Nat.eq_dec a' a) as [->|N].
      - rewrite nth_list_upd_same by exact La. exists new. split; [auto|]. rewrite E in E'. injection E' as <-. lia.
      - rewrite nth_list_upd_other by exact N. eauto. }
    split; [|split; [exact Hle|]].
    - eapply st_ok_step; eauto; cbn; auto.
      intros a' c' E'. apply nth_list_upd in E'. destruct E' as [E'|[-> ->]]; auto; right; eapply vals_ok_le; eauto.
    - cbn. apply nth_list_upd_same. exact La.
  Qed.
  Lemma T_alloc_arr st cells :
    vals_ok st cells ->
    T st (alloc_arr cells) (fun a st' => nth_error (st_arrs st') a = Some cells).
  Proof.
    intros Hn Hok. unf. cbn.
    assert (Hle : st_le st (mkSt (st_scopes st) (st_arrs st ++ [cells]) (st_maps st) (st_funs st) (st_is st))).
    { unfold st_le. cbn. repeat split; auto.
      intros a' len' (c' & E' & L'). exists c'. cbn. split; [apply nth_snoc_old; exact E'|exact L']. }
    split; [|split; [exact Hle|]].
    - eapply st_ok_step; eauto; cbn; auto.
      intros a' c' E'. apply nth_snoc in E'. destruct E' as [E'|[-> ->]]; auto; right; eapply vals_ok_le; eauto.
    - cbn. apply nth_snoc_new.
  Qed.
  Lemma T_set_map st id m :
    id < length (st_maps st) -> map_ok st m -> T st (set_map id m) (fun _ _ => True).
  Proof.
    intros L Hn Hok. unf. cbn.
    assert (Hle : st_le st (mkSt (st_scopes st) (st_arrs st) (list_upd (st_maps st) id m) (st_funs st) (st_is st))).
    { unfold st_le. cbn. rewrite length_list_upd. repeat split; auto. }
    split; [|split; [exact Hle|exact I]].
    eapply st_ok_step; eauto; cbn; auto.
    intros a' c' E'. apply nth_list_upd in E'. destruct E' as [E'|[-> ->]]; auto; right; eapply map_ok_le; eauto.
  Qed.
  Lemma T_alloc_map st m :
    map_ok st m -> T st (alloc_map m) (fun id st' => id < length (st_maps st')).
  Proof.
    intros Hn Hok. unf. cbn.
    assert (Hle : st_le st (mkSt (st_scopes st) (st_arrs st) (st_maps st ++ [m]) (st_funs st) (st_is st))).
    { unfold st_le. cbn. rewrite app_length. cbn. repeat split; auto; lia. }
    split; [|split; [exact Hle|]].
    - eapply st_ok_step; eauto; cbn; auto.
      intros a' c' E'. apply nth_snoc in E'. destruct E' as [E'|[-> ->]]; auto; right; eapply map_ok_le; eauto.
    - cbn. rewrite app_length. cbn. lia.
  Qed.
  Lemma T_alloc_fun st c :
    clo_ok st c -> T st (alloc_fun c) (fun id st' => id < length (st_funs st')).
  Proof.
    intros Hn Hok. unf. cbn.
    assert (Hle : st_le st (mkSt (st_scopes st) (st_arrs st) (st_maps st) (st_funs st ++ [c]) (st_is st))).
    { unfold st_le. cbn. rewrite app_length. cbn. repeat split; auto; try lia.
      intros id c' E'. apply nth_snoc_old. exact E'. }
    split; [|split; [exact Hle|]].
    - eapply st_ok_step; eauto; cbn; auto.
      intros a' c' E'. apply nth_snoc in E'. destruct E' as [E'|[-> ->]]; auto; right; eapply clo_ok_le; eauto.
    - cbn. rewrite app_length. cbn. lia.
  Qed.
  Lemma T_set_scope st s sc :
    sc_ok st s -> scope_inv st s sc -> T st (set_scope s sc) (fun _ _ => True).
  Proof.
    intros L Hn Hok. unf. cbn.
    assert (Hle : st_le st (mkSt (list_upd (st_scopes st) s sc) (st_arrs st) (st_maps st) (st_funs st) (st_is st))).
    { unfold st_le. cbn. rewrite length_list_upd. repeat split; auto. }
    split; [|split; [exact Hle|exact I]].
    eapply st_ok_step; eauto; cbn; auto.
    intros a' c' E'. apply nth_list_upd in E'. destruct E' as [E'|[-> ->]]; auto; right; eapply scope_inv_le; eauto.
  Qed.
  Lemma T_alloc_scope st sc :
    scope_inv st (length (st_scopes st)) sc ->
    T st (alloc_scope sc) (fun s st' => sc_ok st' s /\ s = length (st_scopes st)).
  Proof.
    intros Hn Hok. unf. cbn.
    assert (Hle : st_le st (mkSt (st_scopes st ++ [sc]) (st_arrs st) (st_maps st) (st_funs st) (st_is st))).
    { unfold st_le. cbn. rewrite app_length. cbn. repeat split; auto; lia. }
    split; [|split; [exact Hle|]].
    - eapply st_ok_step; eauto; cbn; auto.
      intros a' c' E'. apply nth_snoc in E'. destruct E' as [E'|[-> ->]]; auto; right; eapply scope_inv_le; eauto.
    - cbn. unfold sc_ok. cbn. rewrite app_length. cbn. split; [lia|auto].
  Qed.
  Lemma T_set_is st i m : is_ok st i -> T st (set_is i m) (fun _ _ => True).
  Proof.
    intros L Hok. unf. cbn.
    assert (Hle : st_le st (mkSt (st_scopes st) (st_arrs st) (st_maps st) (st_funs st) (list_upd (st_is st) i m))).
    { unfold st_le. cbn. rewrite length_list_upd. repeat split; auto. }
    split; [|split; [exact Hle|exact I]].
    eapply st_ok_step; eauto; cbn; auto.
  Qed.
  Lemma T_alloc_is st : T st alloc_is (fun i st' => is_ok st' i).
  Proof.
    intros Hok. unf. cbn.
    assert (Hle : st_le st (mkSt (st_scopes st) (st_arrs st) (st_maps st) (st_funs st) (st_is st ++ [[]]))).
    { unfold st_le. cbn. rewrite app_length. cbn. repeat split; auto; lia. }
    split; [|split; [exact Hle|]].
    - eapply st_ok_step; eauto; cbn; auto.
    - cbn. unfold is_ok. cbn. rewrite app_length. cbn. lia.
  Qed.
End I.

(* ---------------------------------------------------------------- tactics *)
(* after a step from state s to s': carry every fact about s over to s' *)
Ltac adv L :=
  match type of L with
  | st_le ?s ?s' =>
    repeat match goal with
    | H : val_ok s _ |- _ => apply (val_ok_le _ _ L) in H
    | H : arr_ok s _ _ |- _ => apply (arr_ok_le _ _ L) in H
    | H : err_ok s _ |- _ => apply (err_ok_le _ _ L) in H
    | H : oerr_ok s _ |- _ => apply (oerr_ok_le _ _ L) in H
    | H : cr_ok s _ |- _ => apply (cr_ok_le _ _ L) in H
    | H : sc_ok s _ |- _ => apply (sc_ok_le _ _ L) in H
    | H : is_ok s _ |- _ => apply (is_ok_le _ _ L) in H
    | H : vals_ok s _ |- _ => apply (vals_ok_le _ _ L) in H
    | H : vars_ok s _ |- _ => apply (vars_ok_le _ _ L) in H
    | H : map_ok s _ |- _ => apply (map_ok_le _ _ L) in H
    | H : clo_ok s _ |- _ => apply (clo_ok_le _ _ L) in H
    | H : scope_inv s _ _ |- _ => apply (scope_inv_le _ _ L) in H
    end
  end.

(* bind: solve the first computation with [t], name its result and postcondition *)
Tactic Notation "tbind" tactic3(t) "as" simple_intropattern(a) simple_intropattern(HQ) :=
  eapply T_bind;
  [ t
  | let st' := fresh "st" in let Hok := fresh "Hok" in let L := fresh "L" in
    let HQ0 := fresh "HQ" in
    intros a st' Hok L HQ0; unfold Qval, Qcr, Qpair, Qtrue in HQ0; cbv beta in HQ0;
    revert HQ0; intros HQ; adv L; clear L ].
