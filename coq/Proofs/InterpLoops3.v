(* Proofs/InterpLoops3.v — C04 on the unified interpreter model, iteration protocol: the number
   instance (integers WITH a decimal fmt.Sprint, so that indices and number keys print), tree
   constructors and programs of the non-vacuity examples of Props/C04_interp_loops.v.  No theorems. *)
From Coq Require Import List String NArith ZArith Bool Arith.
From Ecal Require Import Common.Bytes Common.Ast gen.Tokens Model.Interp Proofs.InterpControl4.
Import ListNotations.
Local Open Scope string_scope.
Local Open Scope list_scope.
Local Open Scope nat_scope.

Fixpoint n_digits (fuel : nat) (n : N) (acc : bytes) : bytes :=
  match fuel with
  | O => acc
  | S f => let d := (48 + N.modulo n 10)%N in
           if (n <? 10)%N then d :: acc else n_digits f (N.div n 10) (d :: acc)
  end.
Definition z_sprint (z : Z) : option bytes :=
  Some (if (z <? 0)%Z then 45%N :: n_digits 40 (Z.to_N (- z)) [] else n_digits 40 (Z.to_N z) []).
Definition zp_ops : NumOps :=
  Build_NumOps Z (fun s => match s with [] => None | _ => z_digits 0%Z s end) (fun _ => None)
               Z.add Z.sub Z.mul Z.quot Z.div Z.opp (fun z => z) (fun z => z)
               Z.ltb Z.leb Z.eqb z_sprint.

Definition lst (l : list node) : node := nd NodeLIST l.
Definition kvp (k v : node) : node := nd NodeKVP [k; v].
Definition mp (l : list node) : node := nd NodeMAP l.
Definition times (a b : node) : node := nd NodeTIMES [a; b].
Definition neg (a : node) : node := nd NodeMINUS [a].
Definition for_in (v it body : node) : node := nd NodeLOOP [nd NodeIN [v; it]; body].
Definition iff (c : node) (l : list node) : node := nd NodeIF [guard c; block l].
Definition eqn (a b : node) : node := nd NodeEQ [a; b].
Definition at_ (x : string) (i : node) : node := ident x [nd NodeCOMPACCESS [i]].
(* s := s * 10 + e *)
Definition push (s : string) (e : node) : node := assign s (plus (times (var s) (num "10")) e).

(* s := 0; for x in [1, 2, 3] { s := s * 10 + x }; s                                  -> 123 *)
Definition Q1 := block [assign "s" (num "0");
  for_in (var "x") (lst [num "1"; num "2"; num "3"]) (block [push "s" (var "x")]); var "s"].
(* l := [1, 2, 3]; s := 0; for x in l { l[2] := 7; s := s * 10 + x }; s                -> 127
   (the element is read at iteration time) *)
Definition Q2 := block [assign "l" (lst [num "1"; num "2"; num "3"]); assign "s" (num "0");
  for_in (var "x") (var "l") (block [nd NodeASSIGN [at_ "l" (num "2"); num "7"]; push "s" (var "x")]);
  var "s"].
(* l := [1, 2]; n := 0; for x in l { l := add(l, 5); n := n + 1 }; n                   -> 2
   (the length is taken when the loop starts) *)
Definition Q3 := block [assign "l" (lst [num "1"; num "2"]); assign "n" (num "0");
  for_in (var "x") (var "l") (block [assign "l" (call "add" [var "l"; num "5"]); inc "n" "1"]);
  var "n"].
(* s := 0; for x in [1, 2, 3, 4, 5] { if x == 2 { continue }; if x == 4 { break }; s := s * 10 + x }; s   -> 13 *)
Definition Q4 := block [assign "s" (num "0");
  for_in (var "x") (lst [num "1"; num "2"; num "3"; num "4"; num "5"])
    (block [iff (eqn (var "x") (num "2")) [nd NodeCONTINUE []];
            iff (eqn (var "x") (num "4")) [nd NodeBREAK []]; push "s" (var "x")]);
  var "s"].
(* m := {"b": 1, "a": 2, "c": 3}; s := 0; for [k, v] in m { s := s * 10 + v }; s        -> 213 *)
Definition the_map : node := mp [kvp (str "b") (num "1"); kvp (str "a") (num "2"); kvp (str "c") (num "3")].
Definition Q5 := block [assign "m" the_map; assign "s" (num "0");
  for_in (lst [var "k"; var "v"]) (var "m") (block [push "s" (var "v")]); var "s"].
(* number keys are ordered as STRINGS:  m := {10: 1, 9: 2}; for [k, v] in m { s := s * 10 + v }   -> 12 *)
Definition Q6 := block [assign "m" (mp [kvp (num "9") (num "2"); kvp (num "10") (num "1")]); assign "s" (num "0");
  for_in (lst [var "k"; var "v"]) (var "m") (block [push "s" (var "v")]); var "s"].
(* m := {"b": 1, "a": 2, "c": 3}; r := 0; for [k, v] in m { del(m, "c"); if v == null { r := r + 1 } }; r   -> 1
   (the key list is taken at loop start, the value is looked up at iteration time) *)
Definition Q7 := block [assign "m" the_map; assign "r" (num "0");
  for_in (lst [var "k"; var "v"]) (var "m")
    (block [call "del" [var "m"; str "c"]; iff (eqn (var "v") (nd NodeNULL [])) [inc "r" "1"]]);
  var "r"].
(* the keys 1 and "1" print alike: outside the model *)
Definition Q8 := block [assign "m" (mp [kvp (num "1") (num "1"); kvp (str "1") (num "2")]);
  for_in (var "x") (var "m") (block [])].
(* s := 0; for x in 7 { s := s * 10 + x }; s                                          -> 7 *)
Definition Q9 := block [assign "s" (num "0"); for_in (var "x") (num "7") (block [push "s" (var "x")]); var "s"].
(* s := 0; for i in range(1, 5, 2) { s := s * 10 + i }; s                             -> 135 *)
Definition range_loop (a b s : node) : node :=
  block [assign "s" (num "0"); for_in (var "i") (call "range" [a; b; s]) (block [push "s" (var "i")]); var "s"].
Definition R1 := range_loop (num "1") (num "5") (num "2").
(* range(5, 1, -2) -> 5 3 1 *)
Definition R2 := range_loop (num "5") (num "1") (neg (num "2")).
(* range(1, 4, 2) -> 1 3 (5 is past the end) *)
Definition R3 := range_loop (num "1") (num "4") (num "2").
(* range(1, 3, 0), range(1, 3, -1): never past the end - the loop does not terminate *)
Definition R4 := range_loop (num "1") (num "3") (num "0").
Definition R5 := range_loop (num "1") (num "3") (neg (num "1")).
(* range(3, 3, 1): one round *)
Definition R6 := range_loop (num "3") (num "3") (num "1").
(* x := 50; for x in [1, 2] { }; x          -> 2: the loop variable is the OUTER x *)
Definition V1 := block [assign "x" (num "50"); for_in (var "x") (lst [num "1"; num "2"]) (block []); var "x"].
(* for x in [1, 2] { }; x                   -> null: x was defined in the loop's scope only *)
Definition V2 := block [for_in (var "x") (lst [num "1"; num "2"]) (block []); var "x"].

(* ---- pieces *)
(* l := [1, 2, 3]; s := 0 *)
Definition st_l : state (NO := zp_ops) :=
  snd (@eval zp_ops 20 [9] (block [assign "l" (lst [num "1"; num "2"; num "3"]); assign "s" (num "0")]) 0 0 init_state).
Definition LB : node := block [nd NodeASSIGN [at_ "l" (num "2"); num "7"]; push "s" (var "x")].
(* m := {"b": 1, "a": 2, "c": 3}; s := 0 *)
Definition st_m : state (NO := zp_ops) :=
  snd (@eval zp_ops 20 [9] (block [assign "m" the_map; assign "s" (num "0")]) 0 0 init_state).
Definition MB : node := block [push "s" (var "v")].
(* s := 0 *)
Definition st_s : state (NO := zp_ops) := snd (@eval zp_ops 20 [9] (assign "s" (num "0")) 0 0 init_state).
Definition RB : node := block [push "s" (var "i")].
Definition RC : node := call "range" [num "1"; num "5"; num "2"].
