(* Proofs/ParseSharedProofs.v — C13: non-interference for arbitrary step machines, its
   instance for the repaired parser protocol, uniqueness of instance ids, and the
   refutations of the table-swapping protocol and of the unsynchronised counter. *)
From Coq Require Import String List NArith Bool Arith Lia Permutation.
From Coq Require Import ZifyN ZifyNat ZifyBool.
Import ListNotations.
Local Open Scope list_scope.
From Ecal Require Import Common.Sched gen.SharedWrites Model.ParseShared Spec.ReentrantSpec.

(* ------------------------------------------------------------------ lists *)

Lemma upd_length {A} (l : list A) i x : List.length (upd l i x) = List.length l.
Proof. revert i; induction l as [|y r IH]; intros [|i]; simpl; auto. Qed.

Lemma nth_error_upd_eq {A} (l : list A) i x y :
  nth_error l i = Some y -> nth_error (upd l i x) i = Some x.
Proof. revert i; induction l as [|z r IH]; intros [|i]; simpl; try discriminate; auto. Qed.

Lemma nth_error_upd_neq {A} (l : list A) i j x :
  i <> j -> nth_error (upd l i x) j = nth_error l j.
Proof.
  revert i j; induction l as [|z r IH]; intros [|i] [|j] H; simpl; auto; try congruence.
Qed.

(* ------------------------------------------------------------------ generic non-interference *)

Section GenericNI.
  Variables (shared view core aux : Type).
  Variable vw : shared -> view.
  Variable cstep : view -> core -> core.
  Variable astep : shared -> core -> aux -> aux.
  Variable wstep : shared -> core -> shared.

  Notation step := (gstep vw cstep astep wstep).
  Notation iter := (iter_core cstep).

  Lemma gstep_inv (s : gstate shared core aux) t :
    match step s t with
    | Some s' => exists c a, nth_error (snd s) t = Some (c, a) /\
                   s' = (wstep (fst s) c, upd (snd s) t (cstep (vw (fst s)) c, astep (fst s) c a))
    | None => nth_error (snd s) t = None
    end.
  Proof. unfold gstep. destruct (nth_error (snd s) t) as [[c a]|]; eauto. Qed.

  (* no step of any thread changes what the threads read *)
  Hypothesis view_preserved : forall sh c, vw (wstep sh c) = vw sh.

  Lemma iter_S v k c : iter v (S k) c = iter v k (cstep v c).
  Proof. reflexivity. Qed.

  Lemma iter_add v a b c : iter v (a + b) c = iter v b (iter v a c).
  Proof. revert c; induction a as [|a IH]; intros c; simpl; auto. Qed.

  (* Under EVERY schedule: the view never changes, no thread appears or disappears, and the
     core of thread t is what t computes alone in as many steps as the schedule gave it. *)
  Theorem gen_noninterference :
    forall (sched : list nat) (sh : shared) (ths : list (core * aux)) (s' : gstate shared core aux),
      run step (sh, ths) sched = Some s' ->
      vw (fst s') = vw sh /\
      List.length (snd s') = List.length ths /\
      forall t, option_map fst (nth_error (snd s') t)
                = option_map (fun th => iter (vw sh) (count_occ Nat.eq_dec sched t) (fst th))
                             (nth_error ths t).
  Proof.
    induction sched as [|l r IH]; intros sh ths s' H; simpl in H.
    - injection H as <-. simpl. split; [reflexivity|split; [reflexivity|]].
      intros t. destruct (nth_error ths t); reflexivity.
    - unfold gstep in H at 1. simpl in H.
      destruct (nth_error ths l) as [[c a]|] eqn:E; [|discriminate].
      apply IH in H. destruct H as (Hv & Hl & Ht). simpl in Hv.
      rewrite view_preserved in Hv. rewrite upd_length in Hl.
      split; [exact Hv|split; [exact Hl|]].
      intros t. rewrite Ht. rewrite view_preserved. simpl count_occ.
      destruct (Nat.eq_dec l t) as [->|Hne].
      + rewrite (nth_error_upd_eq _ _ _ _ E), E. simpl. reflexivity.
      + rewrite nth_error_upd_neq by exact Hne. reflexivity.
  Qed.

  (* finished threads do not move *)
  Variable done : core -> bool.
  Hypothesis done_fix : forall v c, done c = true -> cstep v c = c.

  Lemma iter_done v k c : done c = true -> iter v k c = c.
  Proof. intros H; induction k as [|k IH]; simpl; auto. rewrite done_fix; auto. Qed.

  Lemma iter_done_unique v a b c :
    done (iter v a c) = true -> done (iter v b c) = true -> iter v a c = iter v b c.
  Proof.
    intros Ha Hb. destruct (Nat.le_ge_cases a b) as [H|H].
    - replace b with (a + (b - a)) by lia. rewrite iter_add.
      rewrite (iter_done v (b - a) (iter v a c) Ha). reflexivity.
    - replace a with (b + (a - b)) by lia. rewrite iter_add.
      rewrite (iter_done v (a - b) (iter v b c) Hb). reflexivity.
  Qed.

  (* A finished thread holds the state it reaches alone, whatever the schedule was. *)
  Theorem gen_result_is_sequential :
    forall sched sh ths s' t c' a' c0 a0 k,
      run step (sh, ths) sched = Some s' ->
      nth_error ths t = Some (c0, a0) ->
      nth_error (snd s') t = Some (c', a') -> done c' = true ->
      done (iter (vw sh) k c0) = true ->
      c' = iter (vw sh) k c0.
  Proof.
    intros sched sh ths s' t c' a' c0 a0 k Hr H0 H1 Hd Hk.
    destruct (gen_noninterference _ _ _ _ Hr) as (_ & _ & Ht).
    specialize (Ht t). rewrite H0, H1 in Ht. simpl in Ht. injection Ht as Ht.
    subst c'. apply iter_done_unique; assumption.
  Qed.
End GenericNI.

(* ------------------------------------------------------------------ the repaired protocol *)

Lemma new_view_preserved : forall sh c, pview (pwstep New sh c) = pview sh.
Proof.
  intros [tbl ctr] c. unfold pwstep, pview. destruct (pc_prog c) as [|[lb| | |] r]; reflexivity.
Qed.

Lemma pdone_fix p : forall v c, pdone c = true -> pcstep p v c = c.
Proof.
  intros v c. unfold pdone, pcstep. destruct (pc_prog c); [reflexivity|discriminate].
Qed.

Lemma pcstep_prog p v c : pc_prog (pcstep p v c) = tl (pc_prog c).
Proof.
  unfold pcstep. destruct (pc_prog c) as [|[[|]| | |] r] eqn:E; simpl; try rewrite E; auto;
    destruct p; reflexivity.
Qed.

Lemma iter_prog_length p v k c :
  List.length (pc_prog c) <= k -> pc_prog (iter_core (pcstep p) v k c) = [].
Proof.
  revert c; induction k as [|k IH]; intros c H; simpl.
  - destruct (pc_prog c); [reflexivity | simpl in H; lia].
  - apply IH. rewrite pcstep_prog. destruct (pc_prog c); simpl in *; lia.
Qed.

Lemma seq_core_done p tbl prog : pdone (seq_core p tbl prog) = true.
Proof.
  unfold pdone, seq_core. rewrite iter_prog_length; [reflexivity|]. simpl. lia.
Qed.

Lemma pinit_nth tbl ctr progs t :
  nth_error (snd (pinit tbl ctr progs)) t = option_map (fun pr => (core0 pr, [])) (nth_error progs t).
Proof. unfold pinit; simpl. apply nth_error_map. Qed.

Lemma pstep_total p : forall sched (s : pstate),
  Forall (fun t => t < List.length (snd s)) sched -> exists s', run (pstep p) s sched = Some s'.
Proof.
  induction sched as [|t r IH]; intros s H; simpl.
  - eauto.
  - inversion H as [|? ? Ht Hr]; subst.
    pose proof (gstep_inv _ _ _ _ pview (pcstep p) pastep (pwstep p) s t) as G.
    unfold pstep at 1. destruct (gstep pview (pcstep p) pastep (pwstep p) s t) as [s1|].
    + destruct G as (c & a & _ & ->). apply IH. simpl. rewrite upd_length. exact Hr.
    + exfalso. apply nth_error_None in G.
      exact (Nat.lt_irrefl _ (Nat.lt_le_trans _ _ _ Ht G)).
Qed.

Lemma count_occ_repeat n : count_occ Nat.eq_dec (repeat 0 n) 0 = n.
Proof. induction n; simpl; auto. Qed.

(* when the table is never written, running alone is stepping against the fixed table *)
Lemma seq_trace_new tbl prog : seq_trace New tbl prog = pc_trace (seq_core New tbl prog).
Proof.
  unfold seq_trace, seq_state.
  destruct (pstep_total New (repeat 0 (List.length prog)) (pinit tbl 0 [prog])) as [s' Hs].
  { apply Forall_forall. intros x Hx. apply repeat_spec in Hx. subst. simpl. lia. }
  rewrite Hs.
  destruct (gen_noninterference _ _ _ _ pview (pcstep New) pastep (pwstep New) new_view_preserved
              _ _ _ _ Hs) as (_ & Hl & Ht).
  specialize (Ht 0). rewrite count_occ_repeat in Ht. destruct s' as [sh ths].
  unfold traces. simpl in *. destruct ths as [|[c a] [|? ?]]; simpl in *; try discriminate.
  injection Ht as ->. reflexivity.
Qed.

(* For every number of parses, every text (action list) of each, every initial table entry
   and counter, and EVERY schedule: a finished parse has exactly the look-up trace (hence the
   tree or error) of the same parse running alone; and the table is what it was. *)
Theorem new_schedule_independent :
  forall (progs : list (list action)) (tbl : entry) (ctr : N) (sched : list nat) (s' : pstate),
    run (pstep New) (pinit tbl ctr progs) sched = Some s' ->
    pview (fst s') = tbl /\
    forall t th prog,
      nth_error (snd s') t = Some th -> nth_error progs t = Some prog ->
      pdone (fst th) = true ->
      fst th = seq_core New tbl prog.
Proof.
  intros progs tbl ctr sched s' H. split.
  - destruct (gen_noninterference _ _ _ _ pview (pcstep New) pastep (pwstep New) new_view_preserved
               _ _ _ _ H) as (Hv & _). exact Hv.
  - intros t [c' a'] prog Hth Hp Hd. simpl in *.
    pose proof (gen_result_is_sequential _ _ _ _ pview (pcstep New) pastep (pwstep New)
                  new_view_preserved pdone (pdone_fix New) sched (tbl, ctr)
                  (map (fun pr => (core0 pr, @nil N)) progs) s' t c' a' (core0 prog) []
                  (List.length prog) H) as G.
    apply G; auto.
    + rewrite nth_error_map, Hp. reflexivity.
    + apply (seq_core_done New tbl prog).
Qed.

(* the same through the static scan: if no listed statement writes the grammar table, the
   model follows the New protocol and parsing is schedule independent *)
Lemma scan_schedule_independent :
  forall ws : list shared_write,
    writes_var grammar_table_var ws = false ->
    forall progs tbl ctr sched s',
      run (pstep (proto_of_scan ws)) (pinit tbl ctr progs) sched = Some s' ->
      pview (fst s') = tbl /\
      forall t th prog,
        nth_error (snd s') t = Some th -> nth_error progs t = Some prog ->
        pdone (fst th) = true ->
        pc_trace (fst th) = seq_trace (proto_of_scan ws) tbl prog.
Proof.
  intros ws Hw progs tbl ctr sched s'. unfold proto_of_scan. rewrite Hw.
  intros H. destruct (new_schedule_independent _ _ _ _ _ H) as [Hv Ht]. split; [exact Hv|].
  intros t th prog H1 H2 H3. rewrite (Ht t th prog H1 H2 H3), seq_trace_new. reflexivity.
Qed.

(* as an instance of the Spec's Reentrant *)
Lemma new_reentrant :
  forall progs tbl ctr,
    Reentrant pstate pthread (list entry) (pstep New)
      (fun s t => nth_error (snd s) t) (fun th => pdone (fst th)) (fun th => pc_trace (fst th))
      (pinit tbl ctr progs)
      (fun t r => forall prog, nth_error progs t = Some prog -> r = seq_trace New tbl prog).
Proof.
  intros progs tbl ctr sched s t th Hr Hth Hd prog Hp.
  destruct (new_schedule_independent _ _ _ _ _ Hr) as [_ H].
  rewrite seq_trace_new, <- (H t th prog Hth Hp Hd). reflexivity.
Qed.

(* ------------------------------------------------------------------ instance ids *)

Definition ids_bounded (s : pstate) : Prop :=
  NoDup (all_ids s) /\ forall i, In i (all_ids s) -> (i <= snd (fst s))%N.

Lemma concat_upd_perm (ths : list pthread) t c a c' x :
  nth_error ths t = Some (c, a) ->
  Permutation (concat (map snd (upd ths t (c', a ++ [x])))) (x :: concat (map snd ths)).
Proof.
  revert t; induction ths as [|[c1 a1] r IH]; intros [|t] H; simpl in *; try discriminate.
  - injection H as -> ->. rewrite <- app_assoc. simpl.
    apply Permutation_sym, Permutation_middle.
  - apply IH in H. rewrite H. apply Permutation_sym, Permutation_middle.
Qed.

Lemma concat_upd_same (ths : list pthread) t c a c' :
  nth_error ths t = Some (c, a) ->
  concat (map snd (upd ths t (c', a))) = concat (map snd ths).
Proof.
  revert t; induction ths as [|[c1 a1] r IH]; intros [|t] H; simpl in *; try discriminate.
  - injection H as -> ->. reflexivity.
  - rewrite (IH _ H). reflexivity.
Qed.

Lemma ids_step p s t s' : ids_bounded s -> pstep p s t = Some s' -> ids_bounded s'.
Proof.
  destruct s as [[tbl ctr] ths]. unfold pstep, gstep, ids_bounded, all_ids, pthread in *. simpl.
  intros [Hnd Hb]. destruct (nth_error ths t) as [[c a]|] eqn:E; [|intros; discriminate].
  intros [= <-]. simpl.
  assert (Hcases : (exists r, pc_prog c = Alloc :: r) \/
                   (pastep (tbl, ctr) c a = a /\ snd (pwstep p (tbl, ctr) c) = ctr)).
  { unfold pastep, pwstep. destruct (pc_prog c) as [|[lb| | |] r]; simpl.
    - right; auto.
    - right; auto.
    - right; destruct p; auto.
    - right; destruct p; auto.
    - left; eauto. }
  destruct Hcases as [[r Hr]|[Ha Hc]].
  - unfold pastep, pwstep. rewrite Hr. simpl.
    pose proof (concat_upd_perm ths t c a (pcstep p tbl c) (ctr + 1)%N E) as HP.
    split.
    + eapply Permutation_NoDup; [apply Permutation_sym, HP|].
      constructor; [|exact Hnd]. intros Hin. apply Hb in Hin. lia.
    + intros i Hin. eapply Permutation_in in Hin; [|exact HP].
      destruct Hin as [<-|Hin]; [lia|]. apply Hb in Hin. lia.
  - rewrite Ha, Hc. rewrite (concat_upd_same ths t c a _ E). split; auto.
Qed.

Lemma concat_map_nil (progs : list (list action)) :
  concat (map (fun _ : list action => @nil N) progs) = [].
Proof. induction progs; simpl; auto. Qed.

(* Under every schedule, in either protocol, with an atomically incremented counter: all
   instance ids handed out so far, over all threads, are pairwise distinct. *)
Theorem instance_ids_unique :
  forall p progs tbl ctr sched s',
    run (pstep p) (pinit tbl ctr progs) sched = Some s' -> ids_unique (all_ids s').
Proof.
  intros p progs tbl ctr sched s' H.
  assert (Hinit : ids_bounded (pinit tbl ctr progs)).
  { unfold ids_bounded, all_ids, pinit. simpl. rewrite map_map. simpl.
    rewrite (concat_map_nil progs). split; [constructor | intros i []]. }
  pose proof (inv_run _ _ (pstep p) ids_bounded (fun s l s' Hi Hs => ids_step p s l s' Hi Hs) sched _ _ Hinit H) as [Hn _].
  exact Hn.
Qed.

(* ------------------------------------------------------------------ refutations of the old code *)

(* thread 0 parses  if a { }  : fetch if, fetch a | Enter | fetch '{' | Leave | fetch '}', fetch EOF
   thread 1 parses  x := { }  : fetch x, fetch :=, fetch '{', fetch '}', fetch EOF *)
Definition prog_if : list action :=
  [Fetch false; Fetch false; Enter; Fetch true; Leave; Fetch false; Fetch false].
Definition prog_map : list action :=
  [Fetch false; Fetch false; Fetch true; Fetch false; Fetch false].

(* A runs up to and including its Enter (the hook point), B runs to completion, A finishes *)
Definition witness_sched : list nat := [0;0;0; 1;1;1;1;1; 0;0;0;0].

Lemma old_table_swap_refuted :
  exists s',
    run (pstep Old) (pinit EMap 0 [prog_if; prog_map]) witness_sched = Some s' /\
    all_done s' = true /\
    nth_error (traces s') 1 = Some [EBlock] /\
    seq_trace Old EMap prog_map = [EMap].
Proof. eexists. vm_compute. repeat split; reflexivity. Qed.

(* lost update: A at its hook, B (another if) up to its hook, A finishes, B finishes.
   B's '{' is looked up in the restored table (a map literal: B gets a wrong error) and B
   writes A's block entry back: the table stays corrupted after both parses have ended. *)
Definition witness_sched_permanent : list nat := [0;0;0; 1;1;1; 0;0;0;0; 1;1;1;1].

Lemma old_table_swap_permanent_refuted :
  exists s',
    run (pstep Old) (pinit EMap 0 [prog_if; prog_if]) witness_sched_permanent = Some s' /\
    all_done s' = true /\
    pview (fst s') = EBlock /\
    nth_error (traces s') 1 = Some [EMap] /\
    seq_trace Old EMap prog_if = [EBlock].
Proof. eexists. vm_compute. repeat split; reflexivity. Qed.

(* instanceCounter++ as a load and a store: two runtime components with the same id *)
Lemma old_counter_duplicate_refuted :
  exists s',
    run old_counter_step (0%N, [mkCT None []; mkCT None []]) [0;1;0;1] = Some s' /\
    map ct_ids (snd s') = [[1%N]; [1%N]].
Proof. eexists. vm_compute. split; reflexivity. Qed.

(* the same two schedules are harmless in the repaired protocol (non-vacuity of the theorem) *)
Lemma new_witness_ok :
  option_map traces (run (pstep New) (pinit EMap 0 [prog_if; prog_map]) witness_sched)
    = Some [[EBlock]; [EMap]] /\
  option_map traces (run (pstep New) (pinit EMap 0 [prog_if; prog_if]) witness_sched_permanent)
    = Some [[EBlock]; [EBlock]].
Proof. vm_compute. split; reflexivity. Qed.

(* ------------------------------------------------------------------ big steps are schedules *)

Lemma big_step_is_run p fuel : forall s t s',
  big_step p fuel s t = Some s' -> exists sched, run (pstep p) s sched = Some s'.
Proof.
  induction fuel as [|f IH]; intros s t s' H; simpl in H.
  - injection H as <-. exists []. reflexivity.
  - revert H. destruct (nth_error (snd s) t) as [[c a]|]; [|intros; discriminate].
    destruct (pc_prog c) as [|[lb| | |] r]; intros H.
    + injection H as <-. exists []. reflexivity.
    + destruct (pstep p s t) as [s1|] eqn:Es; [|discriminate].
      destruct (IH _ _ _ H) as [sc Hsc]. exists (t :: sc). simpl. rewrite Es. exact Hsc.
    + exists [t]. simpl. rewrite H. reflexivity.
    + destruct (pstep p s t) as [s1|] eqn:Es; [|discriminate].
      destruct (IH _ _ _ H) as [sc Hsc]. exists (t :: sc). simpl. rewrite Es. exact Hsc.
    + destruct (pstep p s t) as [s1|] eqn:Es; [|discriminate].
      destruct (IH _ _ _ H) as [sc Hsc]. exists (t :: sc). simpl. rewrite Es. exact Hsc.
Qed.

Lemma run_big_is_run p progs : forall sched s s',
  run (fun s t => big_step p (prog_fuel progs) s t) s sched = Some s' ->
  exists sc, run (pstep p) s sc = Some s'.
Proof.
  induction sched as [|t r IH]; intros s s' H; cbn [run] in H.
  - injection H as <-. exists []. reflexivity.
  - destruct (big_step p (prog_fuel progs) s t) as [s1|] eqn:E; [|discriminate].
    destruct (big_step_is_run _ _ _ _ _ E) as [sc1 H1].
    destruct (IH _ _ H) as [sc2 H2].
    exists (sc1 ++ sc2). rewrite run_app, H1. exact H2.
Qed.

(* what the correspondence check relies on: under every hook-level schedule the repaired
   model predicts "no thread differs from its sequential result" *)
Lemma run_big_new_sequential :
  forall progs sched s',
    run_big New progs sched = Some s' ->
    forall t th prog,
      nth_error (snd s') t = Some th -> nth_error progs t = Some prog ->
      pdone (fst th) = true -> pc_trace (fst th) = seq_trace New EMap prog.
Proof.
  intros progs sched s' H t th prog H1 H2 H3. unfold run_big in H.
  destruct (run_big_is_run _ _ _ _ _ H) as [sc Hsc].
  destruct (new_schedule_independent _ _ _ _ _ Hsc) as [_ Ht].
  rewrite seq_trace_new, (Ht t th prog H1 H2 H3). reflexivity.
Qed.
