(* Proofs/InterpExprRefine.v — the unified interpreter model (Model/Interp.v) instantiated with the
   binary64 operations of Run/RunC06Interp.v ([float_ops]) REFINES the focused C03 model
   (Model/Expr.v, which Props/C03.v proves to compute the C03 Spec) on the expression trees
   [node_of e] of the fragment: number / string / true / false / null literals, the prefix
   operators, and every binary operator except `like` and `:=` (no identifiers, no list literals:
   PARTIAL coverage, named so).  Where the focused model yields a value the unified model yields the
   same value; where it yields an error of a class the unified model yields the error value of the
   corresponding type; where the focused model (which predates the repairs of `%` by zero) says
   "Go panic" the unified model yields the "Runtime error" value; where the focused model is
   [RUnmodelled] nothing is claimed.  The state is never changed. *)
From Coq Require Import List String NArith ZArith Bool Arith Floats Lia.
From Ecal Require Import Common.Bytes Common.Ast gen.Tokens Spec.ExprGrammarSpec.
From Ecal Require Model.Expr Proofs.ExprProofs Run.RunC06Interp.
From Ecal Require Import Model.Interp Spec.InterpExprSpec Proofs.InterpExpr Proofs.InterpExprFacts.
Import ListNotations.
Local Open Scope nat_scope.

(* ---------------------------------------------------------------- for every NumOps *)
Section Stable.
  Context {NO : NumOps}.

  Definition pure2 (w1 w2 : res value) (op : value -> value -> res value) : res value :=
    match w1 with
    | ROk v1 => match w2 with ROk v2 => op v1 v2 | stopped => stopped end
    | stopped => stopped
    end.
  Definition pure1 (w : res value) (op : value -> res value) : res value :=
    match w with ROk v => op v | stopped => stopped end.

  Definition frag_bin (o : binop) : bool := match o with OLike | OAssign => false | _ => true end.

  (* operands that leave the state alone: the operator node is the pure operator of their
     outcomes and leaves the state alone - the comparisons included *)
  Lemma eval_binary_stable fuel path v idf esc ln c1 c2 sc is o st w1 w2 :
    frag_bin o = true ->
    eval fuel (0 :: path) c1 sc is st = (w1, st) ->
    eval fuel (1 :: path) c2 sc is st = (w2, st) ->
    eval (S fuel) path (Node (bin_name o) v idf esc ln [c1; c2]) sc is st = (pure2 w1 w2 (op_bin o st), st).
  Proof.
    intros Ho H1 H2. destruct (once_bin o) eqn:Eo.
    - rewrite eval_binary_once by exact Eo. unfold binary_outcome. rewrite H1.
      destruct w1 as [v1|e|s| |w|w]; try reflexivity.
      rewrite H2. destruct w2 as [v2|e|s| |w|w]; reflexivity.
    - assert (Hc : is_cmp o = true) by (destruct o; try discriminate; reflexivity).
      destruct w1 as [v1|e|s| |w|w].
      + destruct w2 as [v2|e|s| |w|w].
        * apply comparison_of_stable_operands; assumption.
        * rewrite (comparison_failed_second_operand_evaluated_again fuel path v idf esc ln c1 c2 sc is o st v1 st e st Hc H1 H2).
          eapply binary_outcome_second_stops; try eassumption. reflexivity.
        * rewrite eval_comparison by exact Hc. unfold comparison_outcome. rewrite H1, H2. reflexivity.
        * rewrite eval_comparison by exact Hc. unfold comparison_outcome. rewrite H1, H2. reflexivity.
        * rewrite eval_comparison by exact Hc. unfold comparison_outcome. rewrite H1, H2. reflexivity.
        * rewrite eval_comparison by exact Hc. unfold comparison_outcome. rewrite H1, H2. reflexivity.
      + rewrite (comparison_failed_first_operand_evaluated_again fuel path v idf esc ln c1 c2 sc is o st e st Hc H1).
        eapply binary_outcome_first_stops; try eassumption. reflexivity.
      + rewrite eval_comparison by exact Hc. unfold comparison_outcome. rewrite H1. reflexivity.
      + rewrite eval_comparison by exact Hc. unfold comparison_outcome. rewrite H1. reflexivity.
      + rewrite eval_comparison by exact Hc. unfold comparison_outcome. rewrite H1. reflexivity.
      + rewrite eval_comparison by exact Hc. unfold comparison_outcome. rewrite H1. reflexivity.
  Qed.

  Lemma eval_prefix_stable fuel path v idf esc ln c sc is o st w :
    eval fuel (0 :: path) c sc is st = (w, st) ->
    eval (S fuel) path (Node (pre_name o) v idf esc ln [c]) sc is st = (pure1 w (op_pre o), st).
  Proof.
    intros H. rewrite InterpExpr.eval_prefix. unfold unary_outcome. rewrite H.
    destruct w as [v1|e|s| |w|w]; reflexivity.
  Qed.
End Stable.

(* ---------------------------------------------------------------- binary64 *)
Section R.
  Variables (nums : list (bytes * Z)) (strs : list (bytes * option Z)).
  Let FO : NumOps := RunC06Interp.float_ops nums strs.
  Local Existing Instance FO.

  (* the values of the focused model that the fragment can produce *)
  Definition inj (v : Expr.value) : option value :=
    match v with
    | Expr.VNull => Some VNull
    | Expr.VBool b => Some (VBool b)
    | Expr.VNum f => Some (VNum f)
    | Expr.VStr s => Some (VStr s)
    | Expr.VList _ => None
    end.
  Definition ty_of (c : Expr.ecls) : bytes :=
    match c with
    | Expr.ENotANumber => T_NOTNUM
    | Expr.ENotABoolean => T_NOTBOOL
    | Expr.ENotAList => T_NOTLIST
    | Expr.ERegex => T_RUNTIME
    end.
  Definition agrees (r : Expr.eres) (w : res value) : Prop :=
    match r with
    | Expr.RVal v => exists v', inj v = Some v' /\ w = ROk v'
    | Expr.RErr c _ _ _ => w = RErr (rt_err (ty_of c))
    | Expr.RPanic _ => w = RErr (rt_err T_RUNTIME)
    | Expr.RUnmodelled _ => True
    end.

  Fixpoint in_frag (e : expr) : bool :=
    match e with
    | EAtom k _ => match k with AIdent => false | _ => true end
    | EPre _ _ a => in_frag a
    | EBin o _ a b => frag_bin o && in_frag a && in_frag b
    end.
  (* the number table of the instance agrees with the literal parser of the focused model on the
     literals of the expression *)
  Fixpoint lits_ok (e : expr) : Prop :=
    match e with
    | EAtom ANum i => forall f, Expr.parse_number (ti_val i) = Some f ->
                                RunC06Interp.p_lit nums (ti_val i) = Some f
    | EAtom _ _ => True
    | EPre _ _ a => lits_ok a
    | EBin _ _ a b => lits_ok a /\ lits_ok b
    end.
  Fixpoint depth (e : expr) : nat :=
    match e with
    | EAtom _ _ => 0
    | EPre _ _ a => S (depth a)
    | EBin _ _ a b => S (Nat.max (depth a) (depth b))
    end.

  (* ---- the text helpers are the same functions *)
  Lemma ltb_same a : forall b, Interp.bytes_ltb a b = Expr.bytes_ltb a b.
  Proof.
    intros b. reflexivity.   (* the two constants are the same fixpoint *)
  Qed.
  Lemma leb_same a b : Interp.bytes_leb a b = Expr.bytes_leb a b.
  Proof. unfold Interp.bytes_leb, Expr.bytes_leb. rewrite ltb_same. reflexivity. Qed.

  Lemma sprint_inj v a st : inj v = Some a -> sprint 8 st a = Expr.sprint v.
  Proof.
    destruct v as [|b|f|s|l]; intros H; try discriminate H; injection H as <-; reflexivity.
  Qed.

  Lemma text2_agrees f g v1 v2 a b st :
    (forall x y, f x y = g x y) -> inj v1 = Some a -> inj v2 = Some b ->
    agrees (Expr.str_op g (Expr.RVal v1) (Expr.RVal v2)) (text2 f st a b).
  Proof.
    intros Hf Ha Hb. unfold Expr.str_op, Expr.both, text2.
    rewrite (sprint_inj _ _ st Ha), (sprint_inj _ _ st Hb).
    destruct (Expr.sprint v1) as [s1|]; [|exact I].
    destruct (Expr.sprint v2) as [s2|]; [|exact I].
    cbn [agrees]. eexists. split; [reflexivity|]. rewrite Hf. reflexivity.
  Qed.

  (* ---- the operators on values *)
  Lemma eval_op_both rx o path c1 c2 r1 r2 :
    frag_bin o = true ->
    Expr.eval_op rx (bin_name o) path [c1; c2] [r1; r2] =
    Expr.both r1 r2 (fun v1 v2 => Expr.eval_op rx (bin_name o) path [c1; c2] [Expr.RVal v1; Expr.RVal v2]).
  Proof. intros H. destruct o; try discriminate H; reflexivity. Qed.

  Lemma modint_agrees x y :
    agrees (Expr.op_modint x y) (arith OModInt x y).
  Proof.
    unfold Expr.op_modint, arith. cbn [n_trunc n_of_Z FO RunC06Interp.float_ops]. unfold RunC06Interp.f_trunc.
    destruct (Expr.float_trunc x) as [a|]; [|exact I].
    destruct (Expr.float_trunc y) as [b|]; [|exact I].
    destruct (b =? 0)%Z; [reflexivity|].
    cbn [agrees]. eexists. split; reflexivity.
  Qed.

  Local Opaque Expr.float_floor Expr.float_trunc Expr.float_of_int64 Expr.sprint_float
        Expr.op_modint Expr.str_op text2.

  Lemma op_agrees rx o path c1 c2 v1 v2 a b st :
    frag_bin o = true -> inj v1 = Some a -> inj v2 = Some b ->
    agrees (Expr.eval_op rx (bin_name o) path [c1; c2] [Expr.RVal v1; Expr.RVal v2]) (op_bin o st a b).
  Proof.
    intros Ho Ha Hb.
    destruct v1 as [|x1|x1|x1|x1]; try discriminate Ha; injection Ha as <-;
    destruct v2 as [|x2|x2|x2|x2]; try discriminate Hb; injection Hb as <-;
    destruct o; try discriminate Ho; cbn;
      try reflexivity;
      try (eexists; split; reflexivity);
      try apply modint_agrees;
      try (apply text2_agrees; [intros; reflexivity|reflexivity|reflexivity]).
  Qed.

  Lemma pre_agrees rx o path c v a :
    inj v = Some a ->
    agrees (Expr.eval_op rx (pre_name o) path [c] [Expr.RVal v]) (op_pre o a).
  Proof.
    intros Ha.
    destruct v as [|x1|x1|x1|x1]; try discriminate Ha; injection Ha as <-;
      destruct o; cbn; try reflexivity; eexists; split; reflexivity.
  Qed.

  Lemma pre_propagates rx o path c r :
    (forall v, r <> Expr.RVal v) -> Expr.eval_op rx (pre_name o) path [c] [r] = r.
  Proof. intros H. destruct o; destruct r; try reflexivity; exfalso; eapply H; reflexivity. Qed.

  Lemma agrees_both r1 r2 w1 w2 (K : Expr.value -> Expr.value -> Expr.eres) (op : value -> value -> res value) :
    agrees r1 w1 -> agrees r2 w2 ->
    (forall v1 v2 a b, inj v1 = Some a -> inj v2 = Some b -> agrees (K v1 v2) (op a b)) ->
    agrees (Expr.both r1 r2 K) (pure2 w1 w2 op).
  Proof.
    intros H1 H2 HK. destruct r1 as [v1|c n i p|s|w]; cbn [Expr.both agrees] in *.
    - destruct H1 as (a & Ha & ->). cbn [pure2].
      destruct r2 as [v2|c n i p|s|w]; cbn [agrees] in *.
      + destruct H2 as (b & Hb & ->). apply HK; assumption.
      + subst w2. reflexivity.
      + subst w2. reflexivity.
      + exact I.
    - subst w1. reflexivity.
    - subst w1. reflexivity.
    - exact I.
  Qed.

  (* THEOREM 4 (partial: the fragment [in_frag]) *)
  Theorem interp_refines_expr_partial env rx :
    forall e, in_frag e = true -> lits_ok e ->
    forall fuel path sc is st, depth e <= fuel ->
    exists w, eval (S fuel) path (node_of e) sc is st = (w, st) /\
              agrees (Expr.eval env rx path (node_of e)) w.
  Proof.
    induction e as [k i|o i a IHa|o i a IHa b IHb]; intros Hf Hl fuel path sc is st Hd.
    - (* literals *)
      destruct i as [val idf esc ln]. destruct k; try discriminate Hf.
      + (* number *)
        cbn [lits_ok ti_val] in Hl.
        change (eval (S fuel) path (node_of (EAtom ANum (mkTI val idf esc ln))) sc is st)
          with ((match RunC06Interp.p_lit nums val with
                 | Some x => ret (VNum x)
                 | None => invalid "number literal rejected by Validate"
                 end) st).
        change (Expr.eval env rx path (node_of (EAtom ANum (mkTI val idf esc ln))))
          with (match Expr.parse_number val with
                | Some f => Expr.RVal (Expr.VNum f)
                | None => Expr.RUnmodelled "number literal outside the modelled domain"
                end).
        destruct (Expr.parse_number val) as [f|].
        * rewrite (Hl f eq_refl). eexists. split; [reflexivity|]. eexists. split; reflexivity.
        * destruct (RunC06Interp.p_lit nums val); eexists; (split; [reflexivity|exact I]).
      + (* string *)
        change (eval (S fuel) path (node_of (EAtom AStr (mkTI val idf esc ln))) sc is st)
          with (eval_string (Node NodeSTRING val idf esc ln []), st).
        change (Expr.eval env rx path (node_of (EAtom AStr (mkTI val idf esc ln))))
          with (if esc && Expr.has_interp val then Expr.RUnmodelled "string interpolation"
                else Expr.RVal (Expr.VStr val)).
        eexists. split; [reflexivity|].
        unfold eval_string, Expr.has_interp. cbn [n_allow_esc n_val].
        destruct esc; cbn [andb].
        * destruct (find_sub [123%N; 123%N] val) as [[pre post]|]; [exact I|].
          eexists. split; reflexivity.
        * eexists. split; reflexivity.
      + eexists. split; [reflexivity|]. eexists. split; reflexivity.
      + eexists. split; [reflexivity|]. eexists. split; reflexivity.
      + eexists. split; [reflexivity|]. eexists. split; reflexivity.
    - (* prefix operators *)
      cbn [in_frag] in Hf. cbn [lits_ok] in Hl. cbn [depth] in Hd.
      destruct fuel as [|f]; [lia|].
      destruct (IHa Hf Hl f (0 :: path) sc is st ltac:(lia)) as (wa & Ea & Aa).
      destruct i as [val idf esc ln].
      change (node_of (EPre o (mkTI val idf esc ln) a)) with (Node (pre_name o) val idf esc ln [node_of a]).
      rewrite (eval_prefix_stable _ _ _ _ _ _ _ _ _ _ _ _ Ea).
      eexists. split; [reflexivity|].
      change (Node (pre_name o) val idf esc ln [node_of a]) with (leaf_of (pre_name o) (mkTI val idf esc ln) [node_of a]).
      rewrite ExprProofs.eval_prefix.
      destruct (Expr.eval env rx (0 :: path) (node_of a)) as [v|c n i p|s|w] eqn:Er.
      + cbn [agrees] in Aa. destruct Aa as (x & Hx & ->). cbn [pure1]. apply pre_agrees. exact Hx.
      + rewrite pre_propagates by discriminate. cbn [agrees] in *. subst wa. reflexivity.
      + rewrite pre_propagates by discriminate. cbn [agrees] in *. subst wa. reflexivity.
      + rewrite pre_propagates by discriminate. exact I.
    - (* binary operators *)
      cbn [in_frag] in Hf. apply andb_true_iff in Hf. destruct Hf as [Hf Hfb].
      apply andb_true_iff in Hf. destruct Hf as [Ho Hfa].
      cbn [lits_ok] in Hl. destruct Hl as [Hla Hlb]. cbn [depth] in Hd.
      destruct fuel as [|f]; [lia|].
      destruct (IHa Hfa Hla f (0 :: path) sc is st ltac:(lia)) as (wa & Ea & Aa).
      destruct (IHb Hfb Hlb f (1 :: path) sc is st ltac:(lia)) as (wb & Eb & Ab).
      destruct i as [val idf esc ln].
      change (node_of (EBin o (mkTI val idf esc ln) a b))
        with (Node (bin_name o) val idf esc ln [node_of a; node_of b]).
      rewrite (eval_binary_stable _ _ _ _ _ _ _ _ _ _ _ _ _ _ Ho Ea Eb).
      eexists. split; [reflexivity|].
      change (Node (bin_name o) val idf esc ln [node_of a; node_of b])
        with (leaf_of (bin_name o) (mkTI val idf esc ln) [node_of a; node_of b]).
      rewrite ExprProofs.eval_binary by (destruct o; try discriminate Ho; discriminate).
      rewrite eval_op_both by exact Ho.
      apply agrees_both; try assumption.
      intros v1 v2 x y Hx Hy. apply op_agrees; assumption.
  Qed.
End R.
