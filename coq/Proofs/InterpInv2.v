(* Proofs/InterpInv2.v — the invariant through slices, scope/varsscope.go and the built-in
   functions of Model/Interp.v (rules and invariant: Proofs/InterpInv.v). *)
From Coq Require Import List String NArith ZArith Bool Arith Lia.
From Ecal Require Import Common.Bytes Common.Ast gen.Tokens Spec.ParseSpec Model.Interp Proofs.InterpShape
  Proofs.InterpInv.
Import ListNotations.
Local Open Scope string_scope.
Local Open Scope list_scope.
Local Open Scope nat_scope.

Section I2.
  Context {NO : NumOps}.


  (* ---------------------------------------------------------------- containers *)
  Lemma go_index_ok st cells len i :
    len <= length cells -> vals_ok st cells -> rpostI (go_index cells len i) Qval st.
  Proof.
    intros L V. unfold go_index.
    destruct ((0 <=? i)%Z && (i <? Z.of_nat len)%Z) eqn:E; [|exact I].
    destruct (nth_error cells (Z.to_nat i)) as [v|] eqn:E2; cbn.
    - exact (Forall_nth _ _ _ _ V E2).
    - apply nth_error_None in E2. lia.
  Qed.
  Lemma m_get_ok st m k v : map_ok st m -> m_get k m = Some v -> val_ok st v.
  Proof.
    intros H. induction H as [|[k' v'] r [Hk Hv] Hr IH]; cbn; [discriminate|].
    destruct (key_eqb k' k); [intros E; injection E as <-; exact Hv | exact IH].
  Qed.
  Lemma m_set_ok st m k v : map_ok st m -> val_ok st k -> val_ok st v -> map_ok st (m_set k v m).
  Proof.
    intros H Hk Hv. induction H as [|[k' v'] r [Hk' Hv'] Hr IH]; cbn.
    - constructor; [split; assumption | constructor].
    - destruct (key_eqb k' k); constructor; auto; split; assumption.
  Qed.
  Lemma m_del_ok st m k : map_ok st m -> map_ok st (m_del k m).
  Proof.
    intros H. induction H as [|[k' v'] r Hkv Hr IH]; cbn; [constructor|].
    destruct (key_eqb k' k); [exact Hr | constructor; auto].
  Qed.
  Lemma v_get_ok st l k v : vars_ok st l -> v_get k l = Some v -> val_ok st v.
  Proof.
    intros H. induction H as [|[k' v'] r Hv Hr IH]; cbn; [discriminate|].
    destruct (bytes_eqb k' k); [intros E; injection E as <-; exact Hv | exact IH].
  Qed.
  Lemma v_set_ok st l k v : vars_ok st l -> val_ok st v -> vars_ok st (v_set k v l).
  Proof.
    intros H Hv. induction H as [|[k' v'] r Hv' Hr IH]; cbn.
    - constructor; [exact Hv | constructor].
    - destruct (bytes_eqb k' k); constructor; auto.
  Qed.
  Lemma map_field_key_ok st m f : val_ok st (map_field_key m f).
  Proof. unfold map_field_key. destruct (atoi f); [destruct (m_get _ m)|]; exact I. Qed.

  Lemma T_slice_append st a len vs :
    arr_ok st a len -> vals_ok st vs ->
    T st (slice_append a len vs) (fun p st' => arr_ok st' (fst p) (snd p) /\ snd p = len + length vs).
  Proof.
    intros Ha Hvs. unfold slice_append. eapply Tb_get_arr; [exact Ha|]. intros cells E L V.
    cbv zeta. destruct (length cells <? len) eqn:E1; [apply Nat.ltb_lt in E1; lia|].
    destruct (len + length vs <=? length cells) eqn:E2.
    - apply Nat.leb_le in E2.
      tbind (eapply T_set_arr; [exact E | |]) as ? HQ.
      + rewrite !app_length, firstn_length, skipn_length. lia.
      + apply Forall_app; split; [apply Forall_firstn; exact V|].
        apply Forall_app; split; [exact Hvs | apply Forall_skipn; exact V].
      + apply T_ret. cbn. split; [|reflexivity]. eexists. split; [exact HQ|].
        rewrite !app_length, firstn_length, skipn_length. lia.
    - destruct (grow_cap (length cells) (len + length vs)) as [ncap|]; [|apply T_unmod].
      tbind (apply T_alloc_arr) as a' HQ.
      + apply Forall_app; split; [apply Forall_firstn; exact V|].
        apply Forall_app; split; [exact Hvs | apply Forall_repeat; exact I].
      + apply T_ret. cbn. split; [|reflexivity]. eexists. split; [exact HQ|].
        rewrite !app_length, firstn_length, repeat_length. lia.
  Qed.

  Lemma T_sprint_m st v : T st (sprint_m v) Qtrue.
  Proof.
    unfold sprint_m. apply Tb_get_st. destruct (sprint 8 st v); [apply T_ret | apply T_unmod]. exact I.
  Qed.

  (* ---------------------------------------------------------------- scope/varsscope.go *)
  Lemma scope_for_ok st name : st_ok st -> forall d s, s < d -> sc_ok st s ->
    match scope_for d st s name with
    | ROk (Some t) => sc_ok st t
    | ROk None => True
    | _ => False
    end.
  Proof.
    intros Hok. induction d as [|d IH]; intros s Hd Hs; [lia|]. cbn [scope_for].
    destruct (nth_error (st_scopes st) s) as [sc|] eqn:E.
    - destruct (v_get name (sc_vars sc)); [exact Hs|].
      destruct Hok as (O1 & _). destruct (O1 _ _ E) as [Hp _].
      destruct (sc_parent sc) as [p|]; [|exact I].
      apply IH; [lia|]. unfold sc_ok in *. lia.
    - apply nth_error_None in E. unfold sc_ok in Hs. lia.
  Qed.
  Lemma T_scope_for_m st s name :
    sc_ok st s ->
    T st (scope_for_m s name) (fun o st' => match o with Some t => sc_ok st' t | None => True end).
  Proof.
    intros Hs. apply T_ok. intros Hok. unfold scope_for_m. apply Tb_get_st. apply T_lift.
    assert (H := scope_for_ok st name Hok (S (length (st_scopes st))) s).
    unfold rpostI, sc_ok in *.
    destruct (scope_for (S (length (st_scopes st))) st s name) as [[t|]| | | | |]; auto;
      try (exfalso; apply H; lia); apply H; lia.
  Qed.

  Lemma T_lookup_simple st s name :
    sc_ok st s -> T st (lookup_simple s name) (fun r st' => val_ok st' (fst r)).
  Proof.
    intros Hs. unfold lookup_simple.
    tbind (apply T_scope_for_m; exact Hs) as o HQ.
    destruct o as [t|]; [|apply T_ret; exact I].
    eapply Tb_get_scope; [exact HQ|]. intros sc E [_ Hv]. apply T_ret. cbn.
    destruct (v_get name (sc_vars sc)) as [v|] eqn:E2; [|exact I]. eapply v_get_ok; eauto.
  Qed.

  Lemma T_list_step st a len f :
    arr_ok st a len ->
    T st (match list_index len f with
          | None => fail EPlain
          | Some i => bind (get_arr a) (fun cells => lift (go_index cells len i))
          end) Qval.
  Proof.
    intros Ha. destruct (list_index len f) as [i|]; [|apply T_fail; exact I].
    eapply Tb_get_arr; [exact Ha|]. intros cells E L V. apply T_lift. apply go_index_ok; assumption.
  Qed.

  Lemma T_access_get fields : forall st c, val_ok st c -> T st (access_get fields c) Qval.
  Proof.
    induction fields as [|f rest IH]; intros st c Hc; cbn [access_get]; [apply T_ret; exact Hc|].
    eapply T_bind with (Q := Qval).
    - destruct c; try (apply T_fail; exact I).
      + apply T_list_step. exact Hc.
      + eapply Tb_get_map; [exact Hc|]. intros m E Hm. apply T_ret. unfold Qval.
        destruct (m_get (map_field_key m f) m) as [v|] eqn:E2; [|exact I]. eapply m_get_ok; eauto.
    - intros r st' Hok' L Hr. destruct rest; [apply T_ret; exact Hr | apply IH; exact Hr].
  Qed.
  Lemma T_access_container fields : forall st c, val_ok st c -> T st (access_container fields c) Qval.
  Proof.
    induction fields as [|f rest IH]; intros st c Hc; cbn [access_container]; [apply T_ret; exact Hc|].
    eapply T_bind with (Q := Qval).
    - destruct c; try (apply T_fail; exact I).
      + apply T_list_step. exact Hc.
      + eapply Tb_get_map; [exact Hc|]. intros m E Hm.
        destruct (m_get (map_field_key m f) m) as [v|] eqn:E2; [|apply T_fail; exact I].
        apply T_ret. eapply m_get_ok; eauto.
    - intros r st' Hok' L Hr. apply IH; exact Hr.
  Qed.

  Lemma split_dot_aux_nonnil s : forall cur, split_dot_aux cur s <> [].
  Proof.
    induction s as [|c r IH]; intros cur; cbn [split_dot_aux]; [discriminate|].
    destruct (N.eqb c DOT); [discriminate | apply IH].
  Qed.
  Lemma split_dot_nonnil s : split_dot s <> [].
  Proof. apply split_dot_aux_nonnil. Qed.

  Lemma T_get_value st s name : sc_ok st s -> T st (get_value s name) Qval.
  Proof.
    intros Hs. unfold get_value.
    destruct (split_dot name) as [|c0 [|f1 fields]] eqn:E; [exfalso; eapply split_dot_nonnil; eauto| |].
    - tbind (apply T_lookup_simple; exact Hs) as r HQ. apply T_ret. exact HQ.
    - tbind (apply T_lookup_simple; exact Hs) as r HQ.
      destruct (snd r); [apply T_access_get; exact HQ | apply T_ret; exact I].
  Qed.

  Lemma T_set_simple st s name v : sc_ok st s -> val_ok st v -> T st (set_simple s name v) Qtrue.
  Proof.
    intros Hs Hv. unfold set_simple.
    tbind (apply T_scope_for_m; exact Hs) as o HQ. cbv zeta.
    assert (Ht : sc_ok st0 (match o with Some t => t | None => s end)) by (destruct o; assumption).
    eapply Tb_get_scope; [exact Ht|]. intros sc E [Hp Hvars].
    apply T_set_scope; [exact Ht|]. split; [exact Hp|]. cbn. apply v_set_ok; assumption.
  Qed.

  Lemma T_set_value st s name v : sc_ok st s -> val_ok st v -> T st (set_value s name v) Qtrue.
  Proof.
    intros Hs Hv. unfold set_value.
    destruct (split_dot name) as [|c0 [|f1 fields]] eqn:E; [exfalso; eapply split_dot_nonnil; eauto| |].
    - apply T_set_simple; assumption.
    - tbind (apply T_lookup_simple; exact Hs) as r HQ.
      destruct (negb (snd r)); [apply T_fail; exact I|].
      tbind (apply T_access_container; exact HQ) as cont HC. cbv zeta.
      destruct cont; try (apply T_fail; exact I).
      + unfold Qval in HC. cbn in HC.
        destruct (list_index len (last (f1 :: fields) [])) as [i|] eqn:Ei; [|apply T_fail; exact I].
        eapply Tb_get_arr; [exact HC|]. intros cells Ec L V.
        apply Tb_lift. pose proof (go_index_ok st1 cells len i L V) as G.
        destruct (go_index cells len i); cbn in G; auto.
        eapply T_weaken; [eapply T_set_arr; [exact Ec | rewrite length_list_upd; lia |]|].
        * apply Forall_list_upd; assumption.
        * intros; exact I.
      + unfold Qval in HC. cbn in HC. eapply Tb_get_map; [exact HC|]. intros m Em Hm.
        apply T_set_map; [exact HC|]. apply m_set_ok; auto. apply map_field_key_ok.
  Qed.

  Lemma T_set_local_nil st s name : sc_ok st s -> T st (set_local_nil s name) Qtrue.
  Proof.
    intros Hs. unfold set_local_nil. cbv zeta.
    eapply Tb_get_scope; [exact Hs|]. intros sc E [Hp Hvars].
    tbind (apply T_set_scope; [exact Hs|]) as ? HQ.
    - split; [exact Hp|]. cbn. apply v_set_ok; [assumption|exact I].
    - apply T_set_value; [assumption|exact I].
  Qed.

  Lemma find_child_ok st key cs c : find_child st key cs = Some c -> sc_ok st c.
  Proof.
    induction cs as [|x r IH]; cbn [find_child]; [discriminate|].
    destruct (nth_error (st_scopes st) x) as [sc|] eqn:E; [|exact IH].
    destruct (path_eqb (sc_key sc) key); [|exact IH].
    intros H. injection H as <-. apply nth_error_Some. congruence.
  Qed.

  Lemma T_new_child st s key : sc_ok st s -> T st (new_child s key) (fun c st' => sc_ok st' c).
  Proof.
    intros Hs. unfold new_child.
    eapply Tb_get_scope; [exact Hs|]. intros sc E Hinv. apply Tb_get_st.
    destruct (find_child st key (sc_children sc)) as [c|] eqn:Ef.
    - apply T_ret. eapply find_child_ok; eauto.
    - tbind (apply T_alloc_scope) as c HQ.
      + split; cbn; [exact Hs | constructor].
      + destruct HQ as [HQ _].
        tbind (apply T_set_scope; [exact Hs|]) as ? HQ2.
        * destruct Hinv as [Hp Hv]. split; cbn; assumption.
        * apply T_ret. exact HQ.
  Qed.
  Lemma T_new_root st : T st new_root (fun s st' => sc_ok st' s /\ s = length (st_scopes st)).
  Proof. unfold new_root. apply T_alloc_scope. split; cbn; [exact I | constructor]. Qed.
  Lemma T_set_parent st s p : sc_ok st s -> p < s -> T st (set_parent s p) Qtrue.
  Proof.
    intros Hs Hp. unfold set_parent. eapply Tb_get_scope; [exact Hs|]. intros sc E [_ Hv].
    apply T_set_scope; [exact Hs|]. split; cbn; assumption.
  Qed.
End I2.
