(* Common/Ast.v — the parser's AST as a rose tree, exactly the shape of parser.ASTNode:
   node name, the token's value and flags, children.  The harness serialises trees produced
   by the REAL parser into this type (harness/astemit.go), so the interpreter and printer
   models can be run on real trees independently of the parser model. *)
From Coq Require Export List String NArith Bool.
From Ecal Require Export Common.Bytes.
Export ListNotations.

Inductive node : Type :=
| Node (name : string)        (* ASTNode.Name, e.g. "plus", "number", ":=" *)
       (val : bytes)          (* Token.Val *)
       (ident : bool)         (* Token.Identifier *)
       (allow_esc : bool)     (* Token.AllowEscapes (false for raw strings) *)
       (line : nat)           (* Token.Lline *)
       (children : list node).

Definition n_name (n : node) : string := match n with Node x _ _ _ _ _ => x end.
Definition n_val (n : node) : bytes := match n with Node _ x _ _ _ _ => x end.
Definition n_ident (n : node) : bool := match n with Node _ _ x _ _ _ => x end.
Definition n_allow_esc (n : node) : bool := match n with Node _ _ _ x _ _ => x end.
Definition n_line (n : node) : nat := match n with Node _ _ _ _ x _ => x end.
Definition n_children (n : node) : list node := match n with Node _ _ _ _ _ x => x end.

(* short constructor used in cases files: N name val flags line children,
   flags = 0 none, 1 identifier, 2 allow escapes, 3 both *)
Definition Nd (name : string) (val : bytes) (flags : nat) (line : nat) (children : list node) : node :=
  Node name val (Nat.odd flags) (Nat.leb 2 flags) line children.

(* structural induction principle that reaches the children *)
Section NodeInd.
  Variable P : node -> Prop.
  Hypothesis H : forall name val i a l cs, Forall P cs -> P (Node name val i a l cs).
  Fixpoint node_ind' (n : node) : P n :=
    match n with
    | Node name val i a l cs =>
      H name val i a l cs
        ((fix go (l : list node) : Forall P l :=
            match l with
            | [] => Forall_nil P
            | x :: r => Forall_cons x (node_ind' x) (go r)
            end) cs)
    end.
End NodeInd.

Fixpoint node_size (n : node) : nat :=
  match n with
  | Node _ _ _ _ _ cs => S (fold_right (fun c acc => node_size c + acc)%nat O cs)
  end.

(* equality up to token positions (line) — what "same tree" means for C08 / C13 *)
Fixpoint node_eqb (a b : node) : bool :=
  match a, b with
  | Node n1 v1 i1 a1 _ c1, Node n2 v2 i2 a2 _ c2 =>
    String.eqb n1 n2 && bytes_eqb v1 v2 && Bool.eqb i1 i2 && Bool.eqb a1 a2 &&
    (fix go (l1 l2 : list node) : bool :=
       match l1, l2 with
       | [], [] => true
       | x :: r1, y :: r2 => node_eqb x y && go r1 r2
       | _, _ => false
       end) c1 c2
  end.
