(* Common/Outcome.v — what a modelled Go operation can do. A Go panic, a loop that
   never ends and a blocked goroutine are explicit values, never a default. *)
From Coq Require Import String.

Inductive outcome (A : Type) : Type :=
| Ok (a : A)
| Err (e : string)          (* an error value returned to the caller *)
| Panic (site : string)     (* the Go code would panic at this site *)
| OutOfFuel.                (* the fuel given to a fuelled loop ran out *)
Arguments Ok {A} a.
Arguments Err {A} e.
Arguments Panic {A} site.
Arguments OutOfFuel {A}.

Definition obind {A B} (x : outcome A) (f : A -> outcome B) : outcome B :=
  match x with
  | Ok a => f a
  | Err e => Err e
  | Panic s => Panic s
  | OutOfFuel => OutOfFuel
  end.

Definition is_ok {A} (x : outcome A) : bool := match x with Ok _ => true | _ => false end.
Definition is_panic {A} (x : outcome A) : bool := match x with Panic _ => true | _ => false end.
