(* Common/Sched.v — generic interleaving semantics for the schedule-quantified properties.
   A system is a state type with a partial step function indexed by labels (thread id +
   action, or an observed event): [step s l = None] means label l is not enabled in s
   (the thread is blocked, or an observed value does not match the state).
   A schedule / trace is a list of labels; reachability is existence of a schedule. *)
From Coq Require Import List.
Import ListNotations.

Section Sched.
  Variables (state label : Type).
  Variable step : state -> label -> option state.

  Fixpoint run (s : state) (sched : list label) : option state :=
    match sched with
    | [] => Some s
    | l :: rest => match step s l with
                   | Some s' => run s' rest
                   | None => None
                   end
    end.

  Definition reachable (init s : state) : Prop := exists sched, run init sched = Some s.

  Lemma run_app s sched1 sched2 :
    run s (sched1 ++ sched2) = match run s sched1 with Some s' => run s' sched2 | None => None end.
  Proof.
    revert s; induction sched1 as [|l r IH]; intros s; simpl; [reflexivity|].
    destruct (step s l); [apply IH | reflexivity].
  Qed.

  (* one-step invariant => invariant of every reachable state, any schedule length,
     any number of threads *)
  Lemma inv_run (Inv : state -> Prop) :
    (forall s l s', Inv s -> step s l = Some s' -> Inv s') ->
    forall sched s s', Inv s -> run s sched = Some s' -> Inv s'.
  Proof.
    intros Hstep sched; induction sched as [|l r IH]; intros s s' Hi; simpl.
    - intros [= <-]; exact Hi.
    - destruct (step s l) as [s1|] eqn:E; [|discriminate].
      intros H. apply (IH s1 s'); [eapply Hstep; eauto | exact H].
  Qed.

  Lemma inv_reachable (Inv : state -> Prop) init :
    Inv init ->
    (forall s l s', Inv s -> step s l = Some s' -> Inv s') ->
    forall s, reachable init s -> Inv s.
  Proof. intros Hi Hs s [sched Hr]. eapply inv_run; eauto. Qed.

  Lemma reachable_refl s : reachable s s.
  Proof. exists []; reflexivity. Qed.

  Lemma reachable_step init s l s' : reachable init s -> step s l = Some s' -> reachable init s'.
  Proof.
    intros [sched Hr] Hs. exists (sched ++ [l]). rewrite run_app, Hr. simpl. rewrite Hs. reflexivity.
  Qed.

  (* first label of a trace that the model cannot follow (for diagnostics): index *)
  Fixpoint first_invalid (s : state) (sched : list label) (i : nat) : option nat :=
    match sched with
    | [] => None
    | l :: rest => match step s l with
                   | Some s' => first_invalid s' rest (S i)
                   | None => Some i
                   end
    end.
End Sched.
Arguments run {state label} step s sched.
Arguments reachable {state label} step init s.
Arguments first_invalid {state label} step s sched i.
