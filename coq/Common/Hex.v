(* Common/Hex.v — byte strings written by the harness as hexadecimal string literals
   (two lower-case digits per byte): parsing one literal is far cheaper for coqc than
   parsing a list of numerals. *)
From Coq Require Import String Ascii NArith List.
From Ecal Require Import Common.Bytes.
Import ListNotations.
Open Scope N_scope.

Definition hexval (c : ascii) : N :=
  let n := N_of_ascii c in
  if (48 <=? n) && (n <=? 57) then n - 48
  else if (97 <=? n) && (n <=? 102) then n - 87
  else 0.

Fixpoint hx (s : string) : bytes :=
  match s with
  | String a (String b r) => (16 * hexval a + hexval b) :: hx r
  | _ => []
  end.
