(* Common/Bytes.v — byte strings as lists of N, substring search, basic lemmas.
   Text exchanged with the Go harness is always a list of byte values. *)
From Coq Require Export List NArith Bool Arith Lia.
Export ListNotations.
Open Scope N_scope.

Definition byte := N.
Definition bytes := list N.

Fixpoint bytes_eqb (a b : bytes) : bool :=
  match a, b with
  | [], [] => true
  | x :: a', y :: b' => (x =? y) && bytes_eqb a' b'
  | _, _ => false
  end.

Lemma bytes_eqb_spec a b : reflect (a = b) (bytes_eqb a b).
Proof.
  revert b; induction a as [|x a IH]; intros [|y b]; simpl; try (constructor; congruence).
  destruct (N.eqb_spec x y) as [->|Hn]; simpl.
  - destruct (IH b) as [->|Hn]; constructor; congruence.
  - constructor; congruence.
Qed.

Lemma bytes_eqb_refl a : bytes_eqb a a = true.
Proof. destruct (bytes_eqb_spec a a); congruence. Qed.

(* is [p] a prefix of [s]? *)
Fixpoint prefixb (p s : bytes) : bool :=
  match p, s with
  | [], _ => true
  | x :: p', y :: s' => (x =? y) && prefixb p' s'
  | _ :: _, [] => false
  end.

Lemma prefixb_spec p s : prefixb p s = true <-> exists r, s = p ++ r.
Proof.
  revert s; induction p as [|x p IH]; intros s; simpl.
  - split; [intros _; exists s; reflexivity | reflexivity].
  - destruct s as [|y s].
    + split; [discriminate | intros [r Hr]; discriminate].
    + rewrite andb_true_iff, IH, N.eqb_eq. split.
      * intros [-> [r ->]]. exists r; reflexivity.
      * intros [r Hr]. injection Hr as -> ->. split; [reflexivity | exists r; reflexivity].
Qed.

(* [find_sub p s] = Some (a, b) when s = a ++ p ++ b and this is the first
   (leftmost) occurrence of p in s; the Go function strings.Index returns length a. *)
Fixpoint find_sub (p s : bytes) : option (bytes * bytes) :=
  if prefixb p s then Some ([], skipn (length p) s)
  else match s with
       | [] => None
       | x :: s' => match find_sub p s' with
                    | Some (a, b) => Some (x :: a, b)
                    | None => None
                    end
       end.

(* occurrence of p somewhere in s *)
Definition occurs (p s : bytes) : Prop := exists a b, s = a ++ p ++ b.

Lemma skipn_app_length {A} (p r : list A) : skipn (length p) (p ++ r) = r.
Proof. induction p; simpl; auto. Qed.

Lemma find_sub_some p s a b : find_sub p s = Some (a, b) -> s = a ++ p ++ b.
Proof.
  revert a b; induction s as [|x s IH]; intros a b; simpl.
  - destruct (prefixb p []) eqn:Hp; [|discriminate].
    intros [= <- <-]. apply prefixb_spec in Hp as [r Hr].
    destruct p; [|discriminate]. destruct r; [reflexivity|discriminate].
  - destruct (prefixb p (x :: s)) eqn:Hp.
    + intros [= <- <-]. apply prefixb_spec in Hp as [r Hr]. rewrite Hr at 1.
      rewrite Hr, skipn_app_length. reflexivity.
    + destruct (find_sub p s) as [[a' b']|] eqn:Hf; [|discriminate].
      intros [= <- <-]. rewrite (IH a' b' eq_refl). reflexivity.
Qed.

Lemma find_sub_none p s : find_sub p s = None -> ~ occurs p s.
Proof.
  induction s as [|x s IH]; simpl.
  - destruct (prefixb p []) eqn:Hp; [discriminate|]. intros _ [a [b H]].
    destruct a; [|discriminate]. simpl in H.
    assert (prefixb p [] = true) by (apply prefixb_spec; exists b; exact H). congruence.
  - destruct (prefixb p (x :: s)) eqn:Hp; [discriminate|].
    destruct (find_sub p s) as [[a' b']|] eqn:Hf; [discriminate|].
    intros _ [a [b H]]. destruct a as [|y a].
    + simpl in H. assert (prefixb p (x :: s) = true) by (apply prefixb_spec; exists b; exact H).
      congruence.
    + injection H as -> H. apply (IH eq_refl). exists a, b. exact H.
Qed.

(* leftmost: no occurrence of p starts strictly inside the returned prefix *)
Lemma find_sub_first p s a b :
  find_sub p s = Some (a, b) -> forall a1 a2, a = a1 ++ a2 -> a2 <> [] -> prefixb p (a2 ++ p ++ b) = false.
Proof.
  revert a b; induction s as [|x s IH]; intros a b; simpl.
  - destruct (prefixb p []); [|discriminate]. intros [= <- <-] a1 a2 H Hn.
    destruct a1; destruct a2; simpl in H; congruence.
  - destruct (prefixb p (x :: s)) eqn:Hp.
    + intros [= <- <-] a1 a2 H Hn. destruct a1; destruct a2; simpl in H; congruence.
    + destruct (find_sub p s) as [[a' b']|] eqn:Hf; [|discriminate].
      intros [= <- <-] a1 a2 H Hn.
      pose proof (find_sub_some _ _ _ _ Hf) as Hs.
      destruct a1 as [|y a1].
      * simpl in H. subst a2. simpl. rewrite <- Hs. exact Hp.
      * injection H as -> H. eapply IH; eauto.
Qed.

Lemma find_sub_length p s a b : find_sub p s = Some (a, b) -> length s = (length a + length p + length b)%nat.
Proof. intros H. apply find_sub_some in H. subst. rewrite !app_length. lia. Qed.

(* normalise nested appends / conses to right-nested form *)
Ltac list_norm := repeat (progress (simpl; rewrite <- ?app_assoc)).
